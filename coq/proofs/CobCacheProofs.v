(* CobCacheProofs.v — C09: the cache table is an exact image of the evaluated
   repository after any history, and every cached query answers like direct
   evaluation (refinement with abstraction function `parse`). *)
From HW Require Import lib.Base lib.SMap model.CobCache.
From Coq Require Import Sorted Permutation.
Local Open Scope N_scope.

(* ================================================================== A. parse ∘ ser *)

Lemma mapM_map {A B} (f : A -> option B) (g : B -> A) (l : list B) :
  (forall x, f (g x) = Some x) -> mapM f (map g l) = Some l.
Proof.
  intros H. induction l as [|x l IH]; simpl; [reflexivity|].
  rewrite H. simpl. rewrite IH. reflexivity.
Qed.

Lemma parse_comment_ser c : parse_comment (ser_comment c) = Some c.
Proof. destruct c; reflexivity. Qed.

Lemma parse_thread_ser t : parse_thread (ser_thread t) = Some t.
Proof.
  unfold parse_thread, ser_thread. cbn [field assoc key_eqb fname_eqb bind parse_members].
  apply (mapM_map _ (fun co : N * option N => (KOid (fst co), ser_comment (snd co)))).
  intros [c o]. cbn [fst snd]. rewrite parse_comment_ser. reflexivity.
Qed.

Lemma parse_review_ser r : parse_review (ser_review r) = Some r.
Proof.
  unfold parse_review, ser_review. cbn [field assoc key_eqb fname_eqb bind parse_atom].
  rewrite parse_thread_ser. destruct r; reflexivity.
Qed.

Lemma parse_revision_ser r : parse_revision (ser_revision r) = Some r.
Proof.
  unfold parse_revision, ser_revision. cbn [field assoc key_eqb fname_eqb bind parse_atom].
  rewrite parse_thread_ser. cbn [bind parse_members].
  rewrite (mapM_map _ (fun ar : N * review => (KActor (fst ar), ser_review (snd ar)))).
  - destruct r; reflexivity.
  - intros [a rv]. cbn [fst snd]. rewrite parse_review_ser. reflexivity.
Qed.

Lemma ser_revision_not_null r : ser_revision r <> JNull.
Proof. discriminate. Qed.

Lemma parse_orev_ser o : parse_orev (ser_orev o) = Some o.
Proof.
  destruct o as [r|]; [|reflexivity].
  unfold parse_orev, ser_orev.
  pose proof (parse_revision_ser r) as H. unfold ser_revision in *. rewrite H. reflexivity.
Qed.

Lemma parse_pstate_ser s : parse_pstate (ser_pstate s) = Some s.
Proof. destruct s; reflexivity. Qed.

Lemma parse_patch_ser p : parse_patch (ser_patch p) = Some p.
Proof.
  unfold parse_patch, ser_patch. cbn [field assoc key_eqb fname_eqb bind parse_atom].
  rewrite parse_pstate_ser. cbn [bind parse_members].
  rewrite (mapM_map _ (fun ro : N * option revision => (KOid (fst ro), ser_orev (snd ro)))).
  - destruct p; reflexivity.
  - intros [r o]. cbn [fst snd]. rewrite parse_orev_ser. reflexivity.
Qed.

Lemma parse_istate_ser s : parse_istate (ser_istate s) = Some s.
Proof. destruct s as [|[|]]; reflexivity. Qed.

Lemma parse_issue_ser i : parse_issue (ser_issue i) = Some i.
Proof.
  unfold parse_issue, ser_issue. cbn [field assoc key_eqb fname_eqb bind parse_atom].
  rewrite parse_istate_ser. cbn [bind]. rewrite parse_thread_ser. destruct i; reflexivity.
Qed.

(* ================================================================== B. tables *)

Definition ids (t : table) : list N := map fst t.

Lemma find_row_lookup id (t : table) : find_row id t = lookup id t.
Proof. induction t as [|[i j] t IH]; simpl; [reflexivity|]. rewrite IH. reflexivity. Qed.

Lemma find_row_upsert k id j t :
  find_row k (upsert_row id j t) = if N.eqb k id then Some j else find_row k t.
Proof.
  induction t as [|[i x] t IH]; simpl.
  - reflexivity.
  - destruct (N.eqb_spec id i) as [->|Hne]; simpl.
    + destruct (N.eqb_spec k i); reflexivity.
    + rewrite IH. destruct (N.eqb_spec k i) as [->|]; [|reflexivity].
      destruct (N.eqb_spec i id); [congruence | reflexivity].
Qed.

Lemma find_row_delete k id t :
  find_row k (delete_row id t) = if N.eqb k id then None else find_row k t.
Proof.
  unfold delete_row. induction t as [|[i x] t IH]; simpl.
  - destruct (N.eqb k id); reflexivity.
  - destruct (N.eqb_spec id i) as [->|Hne]; simpl.
    + rewrite IH. destruct (N.eqb_spec k i); reflexivity.
    + rewrite IH. destruct (N.eqb_spec k i) as [->|]; [|reflexivity].
      destruct (N.eqb_spec i id); [congruence | reflexivity].
Qed.

Lemma ids_upsert_in k id j t : In k (ids (upsert_row id j t)) <-> k = id \/ In k (ids t).
Proof.
  induction t as [|[i x] t IH]; simpl.
  - intuition.
  - destruct (N.eqb_spec id i) as [->|Hne]; simpl.
    + intuition.
    + rewrite IH. intuition.
Qed.

Lemma nodup_upsert id j t : NoDup (ids t) -> NoDup (ids (upsert_row id j t)).
Proof.
  induction t as [|[i x] t IH]; simpl; intros H.
  - constructor; [intros [] | constructor].
  - inversion H as [|? ? Hni Hnd]; subst.
    destruct (N.eqb_spec id i) as [->|Hne]; simpl.
    + constructor; assumption.
    + constructor; [|apply IH; exact Hnd].
      fold (ids (upsert_row id j t)). rewrite ids_upsert_in. intros [E|Hin]; [congruence | contradiction].
Qed.

Lemma nodup_filter_ids (f : N * json -> bool) t : NoDup (ids t) -> NoDup (ids (filter f t)).
Proof.
  induction t as [|r t IH]; simpl; intros H; [constructor|].
  inversion H as [|? ? Hni Hnd]; subst.
  destruct (f r); simpl; [|apply IH; exact Hnd].
  constructor; [|apply IH; exact Hnd].
  intros Hin. apply Hni. unfold ids in *. rewrite in_map_iff in *.
  destruct Hin as [y [E Hy]]. exists y. split; [exact E|]. apply filter_In in Hy. tauto.
Qed.

Lemma nodup_delete id t : NoDup (ids t) -> NoDup (ids (delete_row id t)).
Proof. apply nodup_filter_ids. Qed.

Lemma find_row_in k j t : find_row k t = Some j -> In (k, j) t.
Proof. rewrite find_row_lookup. apply lookup_In. Qed.

Lemma in_find_row k j t : NoDup (ids t) -> In (k, j) t -> find_row k t = Some j.
Proof.
  induction t as [|[i x] t IH]; simpl; intros Hnd Hin; [tauto|].
  inversion Hnd as [|? ? Hni Hnd']; subst.
  destruct Hin as [E|Hin].
  - inversion E; subst. rewrite N.eqb_refl. reflexivity.
  - destruct (N.eqb_spec k i) as [->|Hne].
    + exfalso. apply Hni. unfold ids. rewrite in_map_iff. exists (i, j). split; [reflexivity | exact Hin].
    + apply IH; assumption.
Qed.

Lemma nodup_ids_nodup t : NoDup (ids t) -> NoDup t.
Proof. unfold ids. apply NoDup_map_inv. Qed.

Lemma nodup_ids_nodup_gen {A} (l : list (N * A)) : NoDup (keys l) -> NoDup l.
Proof. unfold keys. apply NoDup_map_inv. Qed.

Lemma find_row_filter (f : N * json -> bool) k t : NoDup (ids t) ->
  find_row k (filter f t) =
  match find_row k t with Some j => if f (k, j) then Some j else None | None => None end.
Proof.
  induction t as [|[i x] t IH]; simpl; intros Hnd; [reflexivity|].
  inversion Hnd as [|? ? Hni Hnd']; subst.
  destruct (N.eqb_spec k i) as [->|Hne].
  - destruct (f (i, x)) eqn:Ef; simpl.
    + rewrite N.eqb_refl. reflexivity.
    + rewrite IH by exact Hnd'.
      destruct (find_row i t) eqn:E; [|reflexivity].
      exfalso. apply Hni. apply find_row_in in E. unfold ids. rewrite in_map_iff. exists (i, j). auto.
  - destruct (f (i, x)); simpl.
    + destruct (N.eqb_spec k i); [congruence|]. apply IH; exact Hnd'.
    + apply IH; exact Hnd'.
Qed.

(* ---------- sorted assoc lists: keys, NoDup, sort_pairs ---------- *)

Lemma sorted_nodup {V} (m : smap V) : sorted m -> NoDup (keys m).
Proof.
  induction m as [|[k v] m IH]; simpl; intros Hs; [constructor|].
  apply sorted_cons_inv in Hs. destruct Hs as [Hs Hall].
  constructor; [|apply IH; exact Hs].
  intros Hin. rewrite Forall_forall in Hall. specialize (Hall _ Hin). lia.
Qed.

Lemma insert_pair_keys {A} (r : N * A) l k :
  In k (keys (insert_pair r l)) <-> k = fst r \/ In k (keys l).
Proof.
  induction l as [|x l IH]; simpl.
  - intuition.
  - destruct (N.ltb (fst r) (fst x)); simpl.
    + intuition.
    + rewrite IH. intuition.
Qed.

Lemma sort_pairs_keys {A} (l : list (N * A)) k : In k (keys (sort_pairs l)) <-> In k (keys l).
Proof.
  induction l as [|x l IH]; simpl; [tauto|].
  rewrite insert_pair_keys, IH. intuition.
Qed.

Lemma sorted_insert_pair {A} (r : N * A) l :
  sorted l -> ~ In (fst r) (keys l) -> sorted (insert_pair r l).
Proof.
  induction l as [|[k v] l IH]; simpl; intros Hs Hni.
  - destruct r. apply sorted_cons; [apply sorted_nil | constructor].
  - pose proof Hs as Hs0. apply sorted_cons_inv in Hs. destruct Hs as [Hs Hall].
    destruct (N.ltb_spec (fst r) k) as [Hlt|Hge].
    + destruct r as [kr vr]. simpl in *. apply sorted_cons; [exact Hs0|].
      simpl. constructor; [exact Hlt|]. eapply Forall_impl; [|exact Hall]. simpl; intros; lia.
    + apply sorted_cons; [apply IH; [exact Hs | intros Hc; apply Hni; right; exact Hc]|].
      rewrite Forall_forall. intros k' Hk'. apply insert_pair_keys in Hk'.
      destruct Hk' as [->|Hk']; [|rewrite Forall_forall in Hall; apply Hall; exact Hk'].
      assert (fst r <> k) by (intros Hc; apply Hni; left; congruence). lia.
Qed.

Lemma sorted_sort_pairs {A} (l : list (N * A)) : NoDup (keys l) -> sorted (sort_pairs l).
Proof.
  induction l as [|x l IH]; simpl; intros Hnd; [apply sorted_nil|].
  inversion Hnd as [|? ? Hni Hnd']; subst.
  apply sorted_insert_pair; [apply IH; exact Hnd'|].
  rewrite sort_pairs_keys. exact Hni.
Qed.

Lemma lookup_insert_pair {A} (r : N * A) l k :
  ~ In (fst r) (keys l) ->
  lookup k (insert_pair r l) = if N.eqb k (fst r) then Some (snd r) else lookup k l.
Proof.
  induction l as [|[k' v] l IH]; simpl; intros Hni.
  - destruct r; reflexivity.
  - destruct (N.ltb (fst r) k'); simpl.
    + destruct r; reflexivity.
    + rewrite IH by (intros Hc; apply Hni; right; exact Hc).
      destruct (N.eqb_spec k k') as [->|]; [|reflexivity].
      destruct (N.eqb_spec k' (fst r)); [|reflexivity]. exfalso. apply Hni. left. congruence.
Qed.

Lemma lookup_sort_pairs {A} (l : list (N * A)) k : NoDup (keys l) ->
  lookup k (sort_pairs l) = lookup k l.
Proof.
  induction l as [|[k' v] l IH]; simpl; intros Hnd; [reflexivity|].
  inversion Hnd as [|? ? Hni Hnd']; subst.
  rewrite lookup_insert_pair by (rewrite sort_pairs_keys; exact Hni).
  simpl. rewrite IH by exact Hnd'. reflexivity.
Qed.

Lemma lookup_map_snd {A B} (g : A -> B) (m : list (N * A)) k :
  lookup k (map (fun x => (fst x, g (snd x))) m) = option_map g (lookup k m).
Proof.
  induction m as [|[k' v] m IH]; simpl; [reflexivity|].
  destruct (N.eqb k k'); [reflexivity | exact IH].
Qed.

Lemma keys_map_snd {A B} (g : A -> B) (m : list (N * A)) :
  keys (map (fun x => (fst x, g (snd x))) m) = keys m.
Proof. unfold keys. rewrite map_map. reflexivity. Qed.

Lemma sorted_map_snd {A B} (g : A -> B) (m : list (N * A)) :
  sorted m -> sorted (map (fun x => (fst x, g (snd x))) m).
Proof. unfold sorted. rewrite keys_map_snd. tauto. Qed.

Lemma sorted_filter {A} (f : N * A -> bool) (m : list (N * A)) : sorted m -> sorted (filter f m).
Proof.
  induction m as [|[k v] m IH]; simpl; intros Hs; [exact Hs|].
  apply sorted_cons_inv in Hs. destruct Hs as [Hs Hall].
  destruct (f (k, v)); [|apply IH; exact Hs].
  apply sorted_cons; [apply IH; exact Hs|].
  rewrite Forall_forall in *. intros k' Hk'. apply Hall.
  unfold keys in *. rewrite in_map_iff in *. destruct Hk' as [y [E Hy]].
  exists y. split; [exact E|]. apply filter_In in Hy. tauto.
Qed.

(* the image of a store: what the table should contain *)
Definition image {T} (ser : T -> json) (st : smap T) : table :=
  map (fun io => (fst io, ser (snd io))) st.

Lemma lookup_filter {A} (f : N * A -> bool) k (m : list (N * A)) : NoDup (keys m) ->
  lookup k (filter f m) =
  match lookup k m with Some v => if f (k, v) then Some v else None | None => None end.
Proof.
  induction m as [|[i x] m IH]; simpl; intros Hnd; [reflexivity|].
  inversion Hnd as [|? ? Hni Hnd']; subst.
  destruct (N.eqb_spec k i) as [->|Hne].
  - destruct (f (i, x)) eqn:Ef; simpl.
    + rewrite N.eqb_refl. reflexivity.
    + rewrite IH by exact Hnd'.
      destruct (lookup i m) eqn:E; [|reflexivity].
      exfalso. apply Hni. apply lookup_In in E. unfold keys. rewrite in_map_iff. exists (i, a). auto.
  - destruct (f (i, x)); simpl.
    + destruct (N.eqb_spec k i); [congruence|]. apply IH; exact Hnd'.
    + apply IH; exact Hnd'.
Qed.

Lemma lookup_insert {V} k v (m : smap V) k0 : sorted m ->
  lookup k0 (insert k v m) = if N.eqb k0 k then Some v else lookup k0 m.
Proof.
  intros Hs. unfold insert. rewrite lookup_upsert by exact Hs.
  destruct (N.eqb k0 k); [|reflexivity]. destruct (lookup k m); reflexivity.
Qed.

Lemma sorted_insert {V} k v (m : smap V) : sorted m -> sorted (insert k v m).
Proof. apply sorted_upsert. Qed.

(* ================================================================== C. the invariant *)

Section Rel.
Context {T : Type} (ser : T -> json).

(* the table is an exact image of the evaluated repository *)
Definition rel (s : kv (T := T)) : Prop :=
  sorted (kv_store s) /\ NoDup (ids (kv_table s)) /\
  forall k, find_row k (kv_table s) = option_map ser (lookup k (kv_store s)).

Lemma rel_empty : rel kv_empty.
Proof. split; [apply sorted_nil|]. split; [constructor|]. reflexivity. Qed.

Lemma rel_put id o s : rel s -> rel (kv_put ser id o s).
Proof.
  intros (Hs & Hnd & Hf). unfold rel, kv_put; cbn [kv_store kv_table]. split; [apply sorted_insert; exact Hs|].
  split; [apply nodup_upsert; exact Hnd|].
  intros k. rewrite find_row_upsert, lookup_insert by exact Hs.
  destruct (N.eqb k id); [reflexivity | apply Hf].
Qed.

Lemma sorted_set_store id (a : option T) st : sorted st -> sorted (set_store id a st).
Proof. destruct a; simpl; [apply sorted_insert | apply sorted_remove]. Qed.

Lemma lookup_set_store id (a : option T) st k : sorted st ->
  lookup k (set_store id a st) = if N.eqb k id then a else lookup k st.
Proof.
  intros Hs. destruct a; simpl; [apply lookup_insert; exact Hs | apply lookup_remove; exact Hs].
Qed.

Lemma find_row_sync st id t k :
  find_row k (sync_row ser st id t) =
  if N.eqb k id then option_map ser (lookup id st) else find_row k t.
Proof.
  unfold sync_row. destruct (lookup id st); simpl.
  - apply find_row_upsert.
  - apply find_row_delete.
Qed.

Lemma nodup_sync st id t : NoDup (ids t) -> NoDup (ids (sync_row ser st id t)).
Proof. unfold sync_row. destruct (lookup id st); [apply nodup_upsert | apply nodup_delete]. Qed.

Lemma rel_remove id a s : rel s -> rel (kv_remove ser id a s).
Proof.
  intros (Hs & Hnd & Hf). unfold rel, kv_remove; cbn [kv_store kv_table].
  split; [apply sorted_set_store; exact Hs|]. split; [apply nodup_sync; exact Hnd|].
  intros k. rewrite find_row_sync. destruct (N.eqb_spec k id) as [->|Hne]; [reflexivity|].
  rewrite lookup_set_store by exact Hs. destruct (N.eqb_spec k id); [congruence | apply Hf].
Qed.

(* the fetch loop *)
Lemma sorted_fold_set_store (l : list (N * option T)) st :
  sorted st -> sorted (fold_left (fun st c => set_store (fst c) (snd c) st) l st).
Proof.
  revert st. induction l as [|c l IH]; simpl; intros st Hs; [exact Hs|].
  apply IH. apply sorted_set_store. exact Hs.
Qed.

Lemma lookup_fold_set_store_other (l : list (N * option T)) st k :
  sorted st -> ~ In k (map fst l) ->
  lookup k (fold_left (fun st c => set_store (fst c) (snd c) st) l st) = lookup k st.
Proof.
  revert st. induction l as [|c l IH]; simpl; intros st Hs Hni; [reflexivity|].
  rewrite IH; [|apply sorted_set_store; exact Hs | tauto].
  rewrite lookup_set_store by exact Hs.
  destruct (N.eqb_spec k (fst c)); [exfalso; apply Hni; left; congruence | reflexivity].
Qed.

Lemma nodup_fold_sync st (l : list (N * option T)) t :
  NoDup (ids t) -> NoDup (ids (fold_left (fun t c => sync_row ser st (fst c) t) l t)).
Proof.
  revert t. induction l as [|c l IH]; simpl; intros t H; [exact H|].
  apply IH. apply nodup_sync. exact H.
Qed.

Lemma find_row_fold_sync st (l : list (N * option T)) t k :
  find_row k (fold_left (fun t c => sync_row ser st (fst c) t) l t) =
  if existsb (N.eqb k) (map fst l) then option_map ser (lookup k st) else find_row k t.
Proof.
  revert t. induction l as [|c l IH]; simpl; intros t; [reflexivity|].
  rewrite IH, find_row_sync.
  destruct (N.eqb_spec k (fst c)) as [->|Hne]; simpl; [|reflexivity].
  destruct (existsb (N.eqb (fst c)) (map fst l)); reflexivity.
Qed.

Lemma rel_fetch l s : rel s -> rel (kv_fetch ser l s).
Proof.
  intros (Hs & Hnd & Hf). unfold rel, kv_fetch; cbn [kv_store kv_table].
  split; [apply sorted_fold_set_store; exact Hs|]. split; [apply nodup_fold_sync; exact Hnd|].
  intros k. rewrite find_row_fold_sync.
  destruct (existsb (N.eqb k) (map fst l)) eqn:E; [reflexivity|].
  rewrite lookup_fold_set_store_other; [apply Hf | exact Hs |].
  intros Hin. assert (existsb (N.eqb k) (map fst l) = true) as E'; [|congruence].
  apply existsb_exists. exists k. split; [exact Hin | apply N.eqb_refl].
Qed.

(* write_all *)
Lemma nodup_fold_upsert (l : list (N * T)) t :
  NoDup (ids t) -> NoDup (ids (fold_left (fun t io => upsert_row (fst io) (ser (snd io)) t) l t)).
Proof.
  revert t. induction l as [|c l IH]; simpl; intros t H; [exact H|].
  apply IH. apply nodup_upsert. exact H.
Qed.

Lemma find_row_fold_upsert (l : list (N * T)) t k : NoDup (keys l) ->
  find_row k (fold_left (fun t io => upsert_row (fst io) (ser (snd io)) t) l t) =
  match lookup k l with Some o => Some (ser o) | None => find_row k t end.
Proof.
  revert t. induction l as [|[i o] l IH]; simpl; intros t Hnd; [reflexivity|].
  inversion Hnd as [|? ? Hni Hnd']; subst.
  rewrite IH by exact Hnd'. rewrite find_row_upsert.
  destruct (N.eqb_spec k i) as [->|Hne]; [|reflexivity].
  destruct (lookup i l) eqn:E; [|reflexivity].
  exfalso. apply Hni. apply lookup_In in E. unfold keys. rewrite in_map_iff. exists (i, t0). auto.
Qed.

Lemma rel_write_all s : rel s -> rel (kv_write_all ser s).
Proof.
  intros (Hs & Hnd & Hf). unfold rel, kv_write_all; cbn [kv_store kv_table].
  split; [exact Hs|]. split; [apply nodup_fold_upsert; constructor|].
  intros k. rewrite find_row_fold_upsert by (apply sorted_nodup; exact Hs).
  destruct (lookup k (kv_store s)); reflexivity.
Qed.

(* ---------- consequences of the invariant ---------- *)

Lemma image_keys (st : smap T) : keys (image ser st) = keys st.
Proof. apply keys_map_snd. Qed.

Lemma rel_perm s : rel s -> Permutation (kv_table s) (image ser (kv_store s)).
Proof.
  intros (Hs & Hnd & Hf).
  assert (Hsi : sorted (image ser (kv_store s))) by (apply sorted_map_snd; exact Hs).
  apply NoDup_Permutation.
  - apply nodup_ids_nodup. exact Hnd.
  - apply nodup_ids_nodup. apply (sorted_nodup _ Hsi).
  - intros [k j]. split; intros Hin.
    + apply lookup_In.
      unfold image. rewrite lookup_map_snd. rewrite <- Hf. apply in_find_row; assumption.
    + apply find_row_in. rewrite Hf.
      apply (In_lookup k j _ Hsi) in Hin. unfold image in Hin. rewrite lookup_map_snd in Hin. exact Hin.
Qed.

Lemma rel_order_by_id s : rel s -> order_by_id (kv_table s) = image ser (kv_store s).
Proof.
  intros (Hs & Hnd & Hf). unfold order_by_id.
  apply smap_ext.
  - apply sorted_sort_pairs. exact Hnd.
  - apply sorted_map_snd. exact Hs.
  - intros k. rewrite lookup_sort_pairs by exact Hnd.
    rewrite <- find_row_lookup, Hf. unfold image. rewrite lookup_map_snd. reflexivity.
Qed.

Lemma rel_order_by_id_filter (f : N * json -> bool) s : rel s ->
  order_by_id (filter f (kv_table s)) =
  image ser (filter (fun io => f (fst io, ser (snd io))) (kv_store s)).
Proof.
  intros (Hs & Hnd & Hf). unfold order_by_id.
  apply smap_ext.
  - apply sorted_sort_pairs. apply nodup_filter_ids. exact Hnd.
  - apply sorted_map_snd. apply sorted_filter. exact Hs.
  - intros k. rewrite lookup_sort_pairs by (apply nodup_filter_ids; exact Hnd).
    rewrite lookup_filter by exact Hnd. rewrite <- find_row_lookup, Hf.
    unfold image. rewrite lookup_map_snd.
    rewrite lookup_filter by (apply sorted_nodup; exact Hs).
    destruct (lookup k (kv_store s)); simpl; [|reflexivity].
    destruct (f (k, ser t)); reflexivity.
Qed.

Context (parse : json -> option T) (parse_ser : forall o, parse (ser o) = Some o).

Lemma c_rows_image (l : list (N * T)) : c_rows parse (image ser l) = ROk l.
Proof.
  induction l as [|[k o] l IH]; simpl; [reflexivity|].
  rewrite parse_ser. fold (image ser l). rewrite IH. reflexivity.
Qed.

Lemma rel_c_get s id : rel s -> c_get parse (kv_table s) id = ROk (lookup id (kv_store s)).
Proof.
  intros (Hs & Hnd & Hf). unfold c_get. rewrite Hf.
  destruct (lookup id (kv_store s)); simpl; [rewrite parse_ser|]; reflexivity.
Qed.

(* the rows in rowid order parse to a permutation of the store *)
Lemma rel_c_rows_table s : rel s ->
  exists l, c_rows parse (kv_table s) = ROk l /\ Permutation l (kv_store s) /\
            kv_table s = image ser l.
Proof.
  intros H. pose proof (rel_perm s H) as Hp.
  unfold image in Hp. apply Permutation_map_inv in Hp. destruct Hp as [l [E Hp]].
  exists l. split; [|split].
  - rewrite E. apply c_rows_image.
  - apply Permutation_sym. exact Hp.
  - exact E.
Qed.

End Rel.

(* ================================================================== D. queries *)

Lemma sname_eqb_spec a b : sname_eqb a b = true <-> a = b.
Proof. destruct a, b; simpl; split; congruence. Qed.

Lemma gkey_eqb_spec a b : gkey_eqb a b = true <-> a = b.
Proof.
  destruct a, b; simpl; try (split; congruence).
  rewrite sname_eqb_spec. split; congruence.
Qed.

Lemma gkey_eqb_refl a : gkey_eqb a a = true.
Proof. apply gkey_eqb_spec. reflexivity. Qed.

Lemma status_name_eqb s s' : sname_eqb (status_name s) (status_name s') = pstatus_eqb s s'.
Proof. destruct s, s'; reflexivity. Qed.

Lemma pstatus_eqb_spec a b : pstatus_eqb a b = true <-> a = b.
Proof. destruct a, b; simpl; split; congruence. Qed.

Lemma status_name_inj s s' : status_name s = status_name s' -> s = s'.
Proof. destruct s, s'; simpl; congruence. Qed.

Lemma path_status_ser_patch p s :
  path_is [Fstate; Fstatus] (status_name s) (ser_patch p) = pstatus_eqb (status_of (p_state p)) s.
Proof. destruct p as [st revs pay]; destruct st; destruct s; reflexivity. Qed.

Lemma gkey_ser_patch p : gkey_of (ser_patch p) = GStr (status_name (status_of (p_state p))).
Proof. destruct p as [st revs pay]; destruct st; reflexivity. Qed.

Lemma state_ser_patch p : path_get [Fstate] (ser_patch p) = Some (ser_pstate (p_state p)).
Proof. reflexivity. Qed.

Lemma gkey_ser_issue i : gkey_of (ser_issue i) = GStr (istate_name (i_state i)).
Proof. destruct i as [st t pay]; destruct st; reflexivity. Qed.

Lemma state_ser_issue i : path_get [Fstate] (ser_issue i) = Some (ser_istate (i_state i)).
Proof. reflexivity. Qed.

Lemma istate_row_ser_issue s i : istate_row s (ser_issue i) = istate_eqb (i_state i) s.
Proof. destruct i as [st t pay]; destruct st as [|[|]]; destruct s as [|[|]]; reflexivity. Qed.

(* ---------- list / list_by_status ---------- *)

Lemma cp_list_ok s : rel ser_patch s -> cp_list (kv_table s) = ROk (kv_store s).
Proof.
  intros H. unfold cp_list. rewrite (rel_order_by_id ser_patch s H).
  apply (c_rows_image ser_patch parse_patch parse_patch_ser).
Qed.

Lemma cp_list_by_ok s st : rel ser_patch s ->
  cp_list_by (kv_table s) st = ROk (dp_list_by (kv_store s) st).
Proof.
  intros H. unfold cp_list_by.
  rewrite (rel_order_by_id_filter ser_patch
             (fun r => path_is [Fstate; Fstatus] (status_name st) (snd r)) s H).
  rewrite (c_rows_image ser_patch parse_patch parse_patch_ser).
  f_equal. unfold dp_list_by. apply filter_ext. intros [k p]. cbn [fst snd].
  apply path_status_ser_patch.
Qed.

Lemma ci_list_by_ok s st : rel ser_issue s ->
  ci_list_by (kv_table s) st = ROk (di_list_by (kv_store s) st).
Proof.
  intros H. unfold ci_list_by.
  rewrite (rel_order_by_id_filter ser_issue (fun r => istate_row st (snd r)) s H).
  rewrite (c_rows_image ser_issue parse_issue parse_issue_ser).
  f_equal. unfold di_list_by. apply filter_ext. intros [k i]. cbn [fst snd].
  apply istate_row_ser_issue.
Qed.

(* the issue list is in rowid order; sorted by id it is the store *)
Lemma sort_pairs_perm_sorted {A} (l m : list (N * A)) :
  Permutation l m -> sorted m -> sort_pairs l = m.
Proof.
  intros Hp Hs.
  assert (Hnd : NoDup (keys l)).
  { unfold keys. eapply Permutation_NoDup; [apply Permutation_map; apply Permutation_sym; exact Hp|].
    apply (sorted_nodup _ Hs). }
  apply smap_ext; [apply sorted_sort_pairs; exact Hnd | exact Hs |].
  intros k. rewrite lookup_sort_pairs by exact Hnd.
  destruct (lookup k l) eqn:E.
  - apply lookup_In in E. symmetry. apply In_lookup; [exact Hs|].
    eapply Permutation_in; [exact Hp | exact E].
  - destruct (lookup k m) eqn:E'; [|reflexivity].
    apply lookup_In in E'. apply Permutation_sym in Hp.
    eapply Permutation_in in E'; [|exact Hp].
    assert (In k (keys l)) as Hk by (unfold keys; apply in_map_iff; exists (k, a); auto).
    apply lookup_in_keys in Hk. congruence.
Qed.

Lemma ci_list_ok s : rel ser_issue s ->
  exists l, ci_list (kv_table s) = ROk l /\ sort_pairs l = kv_store s.
Proof.
  intros H. destruct (rel_c_rows_table ser_issue parse_issue parse_issue_ser s H) as [l [E [Hp _]]].
  exists l. split; [exact E|]. apply sort_pairs_perm_sorted; [exact Hp | apply H].
Qed.

(* ---------- counts ---------- *)

Definition kcount (t : table) (k : gkey) : N :=
  N.of_nat (length (filter (fun r => gkey_eqb k (gkey_of (snd r))) t)).
Definition krep (t : table) (k : gkey) : json :=
  match filter (fun r => gkey_eqb k (gkey_of (snd r))) t with r :: _ => snd r | [] => JNull end.

Lemma groups_eq t :
  groups t = map (fun k => (krep t k, kcount t k)) (nodup_keys (map (fun r => gkey_of (snd r)) t)).
Proof. reflexivity. Qed.

Lemma nodup_keys_In k l : In k (nodup_keys l) <-> In k l.
Proof.
  induction l as [|x l IH]; simpl; [tauto|].
  rewrite filter_In, IH. split.
  - intros [E|[H _]]; [left; exact E | right; exact H].
  - intros [E|H]; [left; exact E|].
    destruct (gkey_eqb x k) eqn:Ex.
    + left. apply gkey_eqb_spec. exact Ex.
    + right. split; [exact H | reflexivity].
Qed.

Lemma nodup_keys_NoDup l : NoDup (nodup_keys l).
Proof.
  induction l as [|x l IH]; simpl; [constructor|].
  constructor.
  - rewrite filter_In. intros [_ H]. rewrite gkey_eqb_refl in H. discriminate.
  - apply NoDup_filter. exact IH.
Qed.

Lemma existsb_gkey k ks : existsb (gkey_eqb k) ks = true <-> In k ks.
Proof.
  rewrite existsb_exists. split.
  - intros [x [Hx E]]. apply gkey_eqb_spec in E. subst. exact Hx.
  - intros H. exists k. split; [exact H | apply gkey_eqb_refl].
Qed.

Lemma kcount_absent t k :
  existsb (gkey_eqb k) (nodup_keys (map (fun r => gkey_of (snd r)) t)) = false -> kcount t k = 0.
Proof.
  intros H. unfold kcount.
  assert (filter (fun r => gkey_eqb k (gkey_of (snd r))) t = []) as ->; [|reflexivity].
  destruct (filter (fun r => gkey_eqb k (gkey_of (snd r))) t) as [|r l] eqn:E; [reflexivity|].
  exfalso. assert (In r (r :: l)) as Hin by (left; reflexivity). rewrite <- E in Hin.
  apply filter_In in Hin. destruct Hin as [Hin Hk]. apply gkey_eqb_spec in Hk.
  assert (existsb (gkey_eqb k) (nodup_keys (map (fun r => gkey_of (snd r)) t)) = true); [|congruence].
  apply existsb_gkey. apply nodup_keys_In. rewrite Hk. apply in_map_iff. exists r. auto.
Qed.

(* a key of the table and its representative row *)
Lemma krep_in t k : In k (map (fun r => gkey_of (snd r)) t) ->
  exists r, In r t /\ gkey_of (snd r) = k /\ krep t k = snd r.
Proof.
  intros Hin. apply in_map_iff in Hin. destruct Hin as [r0 [E0 Hr0]].
  unfold krep.
  destruct (filter (fun r => gkey_eqb k (gkey_of (snd r))) t) as [|r l] eqn:E.
  - exfalso. assert (In r0 (filter (fun r => gkey_eqb k (gkey_of (snd r))) t)) as H.
    { apply filter_In. split; [exact Hr0|]. rewrite E0. apply gkey_eqb_refl. }
    rewrite E in H. destruct H.
  - assert (In r (r :: l)) as Hin by (left; reflexivity). rewrite <- E in Hin.
    apply filter_In in Hin. destruct Hin as [Hin Hk]. apply gkey_eqb_spec in Hk.
    exists r. repeat split; [exact Hin | symmetry; exact Hk].
Qed.

Definition pgood (t : table) (k : gkey) : Prop :=
  exists p, k = GStr (status_name (status_of (p_state p))) /\ krep t k = ser_patch p.

Lemma cp_counts_fold_ok t ks : Forall (pgood t) ks -> NoDup ks -> forall c,
  exists c', cp_counts_fold (map (fun k => (krep t k, kcount t k)) ks) c = ROk c' /\
    forall s, c' s = c s + (if existsb (gkey_eqb (GStr (status_name s))) ks
                            then kcount t (GStr (status_name s)) else 0).
Proof.
  induction ks as [|k ks IH]; intros Hg Hnd c.
  - exists c. split; [reflexivity|]. intros s. simpl. lia.
  - inversion Hg as [|? ? [p [Ek Er]] Hg']; subst.
    inversion Hnd as [|? ? Hni Hnd']; subst.
    cbn [map cp_counts_fold]. rewrite Er, state_ser_patch, parse_pstate_ser.
    destruct (IH Hg' Hnd' (pc_add (status_of (p_state p)) (kcount t (GStr (status_name (status_of (p_state p))))) c))
      as [c' [E Hc']].
    exists c'. split; [exact E|]. intros s. rewrite Hc'. unfold pc_add.
    cbn [existsb gkey_eqb]. rewrite status_name_eqb.
    destruct (pstatus_eqb s (status_of (p_state p))) eqn:Es; cbn [orb].
    + apply pstatus_eqb_spec in Es. subst s.
      destruct (existsb (gkey_eqb (GStr (status_name (status_of (p_state p))))) ks) eqn:Ex.
      * exfalso. apply Hni. apply existsb_gkey. exact Ex.
      * lia.
    + reflexivity.
Qed.

Lemma filter_length_perm {A} (f : A -> bool) (l m : list A) :
  Permutation l m -> length (filter f l) = length (filter f m).
Proof.
  induction 1 as [|x l m _ IH|x y l|l m n _ IH1 _ IH2]; simpl.
  - reflexivity.
  - destruct (f x); simpl; congruence.
  - destruct (f x), (f y); reflexivity.
  - congruence.
Qed.

Lemma kcount_image_patch (l : list (N * patch)) s :
  kcount (image ser_patch l) (GStr (status_name s)) = N.of_nat (length (dp_list_by l s)).
Proof.
  unfold kcount, dp_list_by, image. f_equal.
  set (F := fun r : N * json => gkey_eqb (GStr (status_name s)) (gkey_of (snd r))).
  assert (HF : forall k p, F (k, ser_patch p) = pstatus_eqb (status_of (p_state p)) s).
  { intros k p. unfold F. cbn [snd]. rewrite gkey_ser_patch. cbn [gkey_eqb].
    rewrite status_name_eqb. destruct s, (status_of (p_state p)); reflexivity. }
  clearbody F.
  induction l as [|[k p] l IH]; [reflexivity|].
  cbn [map filter fst snd]. rewrite HF.
  destruct (pstatus_eqb (status_of (p_state p)) s); cbn [length]; congruence.
Qed.

Lemma pgood_image (l : list (N * patch)) :
  Forall (pgood (image ser_patch l))
         (nodup_keys (map (fun r => gkey_of (snd r)) (image ser_patch l))).
Proof.
  rewrite Forall_forall. intros k Hk. rewrite nodup_keys_In in Hk.
  destruct (krep_in _ _ Hk) as [r [Hin [Eg Er]]].
  unfold image in Hin. apply in_map_iff in Hin. destruct Hin as [[id p] [E _]]. subst r.
  cbn [fst snd] in *. exists p. split; [|exact Er]. rewrite <- Eg. apply gkey_ser_patch.
Qed.

Lemma cp_counts_ok s : rel ser_patch s ->
  exists c, cp_counts (kv_table s) = ROk c /\ forall st, c st = dp_counts (kv_store s) st.
Proof.
  intros H. destruct (rel_c_rows_table ser_patch parse_patch parse_patch_ser s H) as [l [_ [Hp Et]]].
  unfold cp_counts. rewrite groups_eq, Et.
  destruct (cp_counts_fold_ok _ _ (pgood_image l) (nodup_keys_NoDup _) pc_zero) as [c [E Hc]].
  exists c. split; [exact E|]. intros st. rewrite Hc. unfold pc_zero, dp_counts, dp_list_by.
  rewrite <- (filter_length_perm _ _ _ Hp).
  fold (dp_list_by l st). rewrite <- kcount_image_patch.
  destruct (existsb _ _) eqn:Ex; [lia|]. rewrite (kcount_absent _ _ Ex). lia.
Qed.

(* issues: two buckets; a "closed" group may be represented by either reason *)
Definition igood (t : table) (k : gkey) : Prop :=
  exists i, k = GStr (istate_name (i_state i)) /\ krep t k = ser_issue i.

Lemma ci_counts_fold_ok t ks : Forall (igood t) ks -> NoDup ks -> forall c,
  ci_counts_fold (map (fun k => (krep t k, kcount t k)) ks) c =
  ROk (fst c + (if existsb (gkey_eqb (GStr Sopen)) ks then kcount t (GStr Sopen) else 0),
       snd c + (if existsb (gkey_eqb (GStr Sclosed)) ks then kcount t (GStr Sclosed) else 0)).
Proof.
  induction ks as [|k ks IH]; intros Hg Hnd c.
  - simpl. destruct c. simpl. f_equal. f_equal; lia.
  - inversion Hg as [|? ? [i [Ek Er]] Hg']; subst.
    inversion Hnd as [|? ? Hni Hnd']; subst.
    cbn [map ci_counts_fold]. rewrite Er, state_ser_issue, parse_istate_ser.
    destruct (i_state i) as [|b] eqn:Ei; cbn [istate_name] in *.
    + rewrite (IH Hg' Hnd'). cbn [fst snd existsb gkey_eqb sname_eqb orb].
      destruct (existsb (gkey_eqb (GStr Sopen)) ks) eqn:Ex.
      * exfalso. apply Hni. apply existsb_gkey. exact Ex.
      * f_equal. f_equal; lia.
    + rewrite (IH Hg' Hnd'). cbn [fst snd existsb gkey_eqb sname_eqb orb].
      destruct (existsb (gkey_eqb (GStr Sclosed)) ks) eqn:Ex.
      * exfalso. apply Hni. apply existsb_gkey. exact Ex.
      * f_equal. f_equal; lia.
Qed.

Lemma igood_image (l : list (N * issue)) :
  Forall (igood (image ser_issue l))
         (nodup_keys (map (fun r => gkey_of (snd r)) (image ser_issue l))).
Proof.
  rewrite Forall_forall. intros k Hk. rewrite nodup_keys_In in Hk.
  destruct (krep_in _ _ Hk) as [r [Hin [Eg Er]]].
  unfold image in Hin. apply in_map_iff in Hin. destruct Hin as [[id i] [E _]]. subst r.
  cbn [fst snd] in *. exists i. split; [|exact Er]. rewrite <- Eg. apply gkey_ser_issue.
Qed.

Lemma kcount_image_issue (l : list (N * issue)) (f : istate -> bool) n :
  (forall s, sname_eqb n (istate_name s) = f s) ->
  kcount (image ser_issue l) (GStr n) =
  N.of_nat (length (filter (fun ii => f (i_state (snd ii))) l)).
Proof.
  intros Hf. unfold kcount, image. f_equal.
  set (F := fun r : N * json => gkey_eqb (GStr n) (gkey_of (snd r))).
  assert (HF : forall k i, F (k, ser_issue i) = f (i_state i)).
  { intros k i. unfold F. cbn [snd]. rewrite gkey_ser_issue. cbn [gkey_eqb]. apply Hf. }
  clearbody F.
  induction l as [|[k i] l IH]; [reflexivity|].
  cbn [map filter fst snd]. rewrite HF.
  destruct (f (i_state i)); cbn [length]; congruence.
Qed.

Lemma ci_counts_ok s : rel ser_issue s -> ci_counts (kv_table s) = ROk (di_counts (kv_store s)).
Proof.
  intros H. destruct (rel_c_rows_table ser_issue parse_issue parse_issue_ser s H) as [l [_ [Hp Et]]].
  unfold ci_counts. rewrite groups_eq, Et.
  rewrite (ci_counts_fold_ok _ _ (igood_image l) (nodup_keys_NoDup _)).
  unfold di_counts. cbn [fst snd]. f_equal. f_equal.
  - rewrite <- (filter_length_perm _ _ _ Hp).
    rewrite <- (kcount_image_issue l (fun s => match s with IOpen => true | _ => false end) Sopen)
      by (intros [|b]; reflexivity).
    destruct (existsb _ _) eqn:Ex; [lia|]. rewrite (kcount_absent _ _ Ex). lia.
  - rewrite <- (filter_length_perm _ _ _ Hp).
    rewrite <- (kcount_image_issue l (fun s => match s with IClosed _ => true | _ => false end) Sclosed)
      by (intros [|b]; reflexivity).
    destruct (existsb _ _) eqn:Ex; [lia|]. rewrite (kcount_absent _ _ Ex). lia.
Qed.

(* ---------- find_by_revision ---------- *)

(* ids are content addresses: a patch's own id is one of its revision keys (the root
   revision, possibly redacted), a revision id occurs in at most one patch, and the
   revision map (a BTreeMap) has no duplicate keys *)
Definition wf_store (s : smap patch) : Prop :=
  (forall id p, In (id, p) s -> NoDup (keys (p_revs p)) /\ In id (keys (p_revs p))) /\
  (forall id1 p1 id2 p2 r, In (id1, p1) s -> In (id2, p2) s ->
     In r (keys (p_revs p1)) -> In r (keys (p_revs p2)) -> id1 = id2).

Definition hits (l : list (N * patch)) (rev : N) : list (N * patch * revision) :=
  flat_map (fun ip => match revision_of (snd ip) rev with
                      | Some r => [(fst ip, snd ip, r)]
                      | None => []
                      end) l.

Definition rev_row (rev : N) (kv : key * json) : bool :=
  key_eqb (fst kv) (KOid rev) && is_object (snd kv).

Lemma rev_rows_absent rev (revs : list (N * option revision)) : ~ In rev (keys revs) ->
  filter (rev_row rev) (map (fun ro => (KOid (fst ro), ser_orev (snd ro))) revs) = [].
Proof.
  induction revs as [|[r0 o] revs IH]; intros Hni; [reflexivity|].
  cbn [map filter]. unfold rev_row at 1. cbn [fst snd key_eqb].
  destruct (N.eqb_spec r0 rev) as [->|Hne].
  - exfalso. apply Hni. left. reflexivity.
  - cbn [andb]. apply IH. intros Hc. apply Hni. right. exact Hc.
Qed.

Lemma rev_rows revs rev : NoDup (keys revs) ->
  filter (rev_row rev) (map (fun ro => (KOid (fst ro), ser_orev (snd ro))) revs) =
  match lookup rev revs with
  | Some (Some r) => [(KOid rev, ser_revision r)]
  | _ => []
  end.
Proof.
  induction revs as [|[r0 o] revs IH]; intros Hnd; [reflexivity|].
  inversion Hnd as [|? ? Hni Hnd']; subst.
  cbn [map filter lookup]. unfold rev_row at 1. cbn [fst snd key_eqb].
  rewrite (N.eqb_sym rev r0).
  destruct (N.eqb_spec r0 rev) as [->|Hne].
  - rewrite (rev_rows_absent rev revs Hni). destruct o as [r|]; reflexivity.
  - cbn [andb]. apply IH. exact Hnd'.
Qed.

Lemma find_rows_image (l : list (N * patch)) rev :
  (forall id p, In (id, p) l -> NoDup (keys (p_revs p))) ->
  find_rows (image ser_patch l) rev =
  map (fun x : N * patch * revision =>
         (fst (fst x), ser_patch (snd (fst x)), ser_revision (snd x))) (hits l rev).
Proof.
  induction l as [|[id p] l IH]; intros Hwf; [reflexivity|].
  unfold find_rows, hits, image. cbn [map flat_map fst snd]. rewrite map_app.
  f_equal.
  - change (json_each [Frevisions] (ser_patch p))
      with (map (fun ro => (KOid (fst ro), ser_orev (snd ro))) (p_revs p)).
    fold (rev_row rev).
    change (fun kv : key * json => key_eqb (fst kv) (KOid rev) && is_object (snd kv)) with (rev_row rev).
    rewrite rev_rows by (apply (Hwf id p); left; reflexivity).
    unfold revision_of. destruct (lookup rev (p_revs p)) as [[r|]|]; reflexivity.
  - apply IH. intros id' p' Hin. apply (Hwf id' p'). right. exact Hin.
Qed.

Definition head_opt {A} (l : list A) : option A := match l with x :: _ => Some x | [] => None end.

Lemma cp_find_image (l : list (N * patch)) rev :
  (forall id p, In (id, p) l -> NoDup (keys (p_revs p))) ->
  cp_find (image ser_patch l) rev = ROk (head_opt (hits l rev)).
Proof.
  intros Hwf. unfold cp_find. rewrite (find_rows_image l rev Hwf).
  destruct (hits l rev) as [|[[id p] r] h]; [reflexivity|].
  cbn [map fst snd head_opt]. rewrite parse_patch_ser, parse_revision_ser. reflexivity.
Qed.

Lemma flat_map_le1 {A B} (f : A -> list B) (l : list A) :
  NoDup l -> (forall x, In x l -> (length (f x) <= 1)%nat) ->
  (forall x y, In x l -> In y l -> f x <> [] -> f y <> [] -> x = y) ->
  (length (flat_map f l) <= 1)%nat.
Proof.
  induction l as [|x l IH]; intros Hnd Hlen Huniq; simpl; [lia|].
  inversion Hnd as [|? ? Hni Hnd']; subst.
  rewrite app_length.
  destruct (f x) as [|b fb] eqn:Ex.
  - simpl. apply IH; [exact Hnd' | intros; apply Hlen; right; assumption|].
    intros y z Hy Hz. apply Huniq; right; assumption.
  - assert (flat_map f l = []) as ->.
    { destruct (flat_map f l) as [|c rest] eqn:E; [reflexivity|]. exfalso.
      assert (In c (flat_map f l)) as Hc by (rewrite E; left; reflexivity).
      apply in_flat_map in Hc. destruct Hc as [y [Hy Hcy]].
      assert (x = y) as <-; [|contradiction].
      apply Huniq; [left; reflexivity | right; exact Hy | rewrite Ex; discriminate|].
      intros E'. rewrite E' in Hcy. destruct Hcy. }
    specialize (Hlen x (or_introl eq_refl)). rewrite Ex in Hlen. simpl in *. lia.
Qed.

Lemma perm_le1 {A} (a b : list A) : Permutation a b -> (length a <= 1)%nat -> a = b.
Proof.
  intros Hp Hl. destruct a as [|x [|y a]].
  - apply Permutation_nil in Hp. congruence.
  - apply Permutation_length_1_inv in Hp. congruence.
  - simpl in Hl. lia.
Qed.

Lemma revision_of_key p rev r : revision_of p rev = Some r -> In rev (keys (p_revs p)).
Proof.
  unfold revision_of. destruct (lookup rev (p_revs p)) as [[r'|]|] eqn:E; try discriminate.
  intros _. apply lookup_In in E. unfold keys. apply in_map_iff. exists (rev, Some r'). auto.
Qed.

Lemma hits_le1 st rev : sorted st -> wf_store st -> (length (hits st rev) <= 1)%nat.
Proof.
  intros Hs [Hwf1 Hwf2]. unfold hits. apply flat_map_le1.
  - apply nodup_ids_nodup_gen. apply (sorted_nodup _ Hs).
  - intros [id p] _. cbn [snd]. destruct (revision_of p rev); simpl; lia.
  - intros [id1 p1] [id2 p2] H1 H2. cbn [fst snd]. intros N1 N2.
    destruct (revision_of p1 rev) as [r1|] eqn:E1; [|congruence].
    destruct (revision_of p2 rev) as [r2|] eqn:E2; [|congruence].
    assert (id1 = id2) as <-.
    { apply (Hwf2 id1 p1 id2 p2 rev H1 H2); eapply revision_of_key; eassumption. }
    f_equal. apply (In_lookup _ _ _ Hs) in H1. apply (In_lookup _ _ _ Hs) in H2. congruence.
Qed.

Lemma find_map_head {A B} (f : A -> option B) (l : list A) :
  find_map f l = head_opt (flat_map (fun x => match f x with Some y => [y] | None => [] end) l).
Proof.
  induction l as [|x l IH]; simpl; [reflexivity|].
  destruct (f x); simpl; [reflexivity | exact IH].
Qed.

Lemma dp_find_head st rev : sorted st -> wf_store st -> dp_find st rev = head_opt (hits st rev).
Proof.
  intros Hs Hwf. pose proof (hits_le1 st rev Hs Hwf) as Hle. destruct Hwf as [Hwf1 Hwf2].
  unfold dp_find. destruct (lookup rev st) as [p|] eqn:El.
  - apply lookup_In in El.
    destruct (revision_of p rev) as [r|] eqn:Er.
    + assert (In (rev, p, r) (hits st rev)) as Hin.
      { unfold hits. apply in_flat_map. exists (rev, p). split; [exact El|].
        cbn [fst snd]. rewrite Er. left. reflexivity. }
      destruct (hits st rev) as [|h [|h' t]]; simpl in *; [tauto | | lia].
      destruct Hin as [->|[]]. reflexivity.
    + destruct (hits st rev) as [|[[id q] r] t] eqn:Eh; [reflexivity|]. exfalso.
      assert (In (id, q, r) (hits st rev)) as Hin by (rewrite Eh; left; reflexivity).
      unfold hits in Hin. apply in_flat_map in Hin. destruct Hin as [[id' q'] [Hq Hin]].
      cbn [fst snd] in Hin. destruct (revision_of q' rev) as [r'|] eqn:Er'; [|destruct Hin].
      destruct Hin as [E|[]]. inversion E; subst.
      assert (id = rev) as ->.
      { apply (Hwf2 id q rev p rev Hq El); [eapply revision_of_key; eassumption|].
        apply (Hwf1 rev p El). }
      apply (In_lookup _ _ _ Hs) in Hq. apply (In_lookup _ _ _ Hs) in El. congruence.
  - rewrite find_map_head. unfold hits. f_equal. apply flat_map_ext.
    intros [id p]. cbn [fst snd]. destruct (revision_of p rev); reflexivity.
Qed.

Lemma cp_find_ok s rev : rel ser_patch s -> wf_store (kv_store s) ->
  cp_find (kv_table s) rev = ROk (dp_find (kv_store s) rev).
Proof.
  intros H Hwf. pose proof H as (Hs & _ & _).
  destruct (rel_c_rows_table ser_patch parse_patch parse_patch_ser s H) as [l [_ [Hp Et]]].
  rewrite Et. rewrite cp_find_image.
  - f_equal. rewrite (dp_find_head _ _ Hs Hwf). f_equal.
    symmetry. apply perm_le1; [|apply hits_le1; assumption].
    unfold hits. apply Permutation_flat_map. apply Permutation_sym. exact Hp.
  - intros id p Hin. apply (proj1 Hwf id p). eapply Permutation_in; [exact Hp | exact Hin].
Qed.

(* ================================================================== E. histories *)

Definition rel_state (s : state) : Prop := rel ser_patch (st_p s) /\ rel ser_issue (st_i s).

Lemma rel_state0 : rel_state state0.
Proof. split; apply rel_empty. Qed.

Lemma rel_apply_step s x : rel_state s -> rel_state (apply_step s x).
Proof.
  intros [Hp Hi]. destruct x; simpl; split; cbn [st_p st_i]; try assumption.
  - apply rel_put; exact Hp.
  - apply rel_put; exact Hi.
  - apply rel_remove; exact Hp.
  - apply rel_remove; exact Hi.
  - apply rel_fetch; exact Hp.
  - apply rel_fetch; exact Hi.
  - apply rel_write_all; exact Hp.
  - apply rel_write_all; exact Hi.
Qed.

Lemma rel_fold_steps l s : rel_state s -> rel_state (fold_left apply_step l s).
Proof.
  revert s. induction l as [|x l IH]; simpl; intros s H; [exact H|].
  apply IH. apply rel_apply_step. exact H.
Qed.

Lemma rel_run_steps h : rel_state (run_steps h).
Proof. apply rel_fold_steps. apply rel_state0. Qed.

(* the cache table holds exactly the serialisation of what the repository evaluates to:
   no stale row, no missing row, no outdated row *)
Lemma table_is_image h :
  let s := run_steps h in
  (forall id, find_row id (kv_table (st_p s)) = option_map ser_patch (lookup id (kv_store (st_p s)))) /\
  (forall id, find_row id (kv_table (st_i s)) = option_map ser_issue (lookup id (kv_store (st_i s)))) /\
  NoDup (ids (kv_table (st_p s))) /\ NoDup (ids (kv_table (st_i s))).
Proof.
  destruct (rel_run_steps h) as [(_ & Hn1 & Hf1) (_ & Hn2 & Hf2)]. cbv zeta. auto.
Qed.

Lemma pc_tuple_ext c c' : (forall s, c s = c' s) -> pc_tuple c = pc_tuple c'.
Proof. intros H. unfold pc_tuple. rewrite !H. reflexivity. Qed.

Lemma cache_refines_store (h : list step) :
  let s := run_steps h in
  let tp := kv_table (st_p s) in let sp := kv_store (st_p s) in
  let ti := kv_table (st_i s) in let si := kv_store (st_i s) in
  (forall id, c_get parse_patch tp id = ROk (lookup id sp)) /\
  cp_list tp = ROk sp /\
  (forall st, cp_list_by tp st = ROk (dp_list_by sp st)) /\
  (exists c, cp_counts tp = ROk c /\ pc_tuple c = pc_tuple (dp_counts sp)) /\
  (wf_store sp -> forall rev, cp_find tp rev = ROk (dp_find sp rev)) /\
  (forall id, c_get parse_issue ti id = ROk (lookup id si)) /\
  (exists l, ci_list ti = ROk l /\ sort_pairs l = si) /\
  (forall st, ci_list_by ti st = ROk (di_list_by si st)) /\
  ci_counts ti = ROk (di_counts si).
Proof.
  cbv zeta. destruct (rel_run_steps h) as [Hp Hi].
  split; [intros id; apply (rel_c_get ser_patch parse_patch parse_patch_ser _ id Hp)|].
  split; [apply cp_list_ok; exact Hp|].
  split; [intros st; apply cp_list_by_ok; exact Hp|].
  split.
  { destruct (cp_counts_ok _ Hp) as [c [E Hc]]. exists c. split; [exact E | apply pc_tuple_ext; exact Hc]. }
  split; [intros Hwf rev; apply cp_find_ok; assumption|].
  split; [intros id; apply (rel_c_get ser_issue parse_issue parse_issue_ser _ id Hi)|].
  split; [apply ci_list_ok; exact Hi|].
  split; [intros st; apply ci_list_by_ok; exact Hi|].
  apply ci_counts_ok; exact Hi.
Qed.

(* ---------- non-vacuity and the pre-fix statements ---------- *)

(* patch 1: root revision 1 (comment 5, a review by actor 1 with comment 6, redacted
   comment 7), redacted revision 2; patch 3: merged; issues 8 (closed: other), 9 (closed: solved) *)
Definition ex_rev1 : revision := mkRev [(5, Some 50); (7, None)] [(1, mkReview [(6, Some 60)] 61)] 10.
Definition ex_patch1 : patch := mkPatch (POpen 0) [(1, Some ex_rev1); (2, None)] 100.
Definition ex_patch3 : patch := mkPatch (PMerged 7) [(3, Some (mkRev [] [] 30))] 300.
Definition ex_history : list step :=
  [PutP 1 (mkPatch PDraft [(1, Some (mkRev [] [] 10))] 100); PutP 3 ex_patch3; PutP 1 ex_patch1;
   PutI 8 (mkIssue (IClosed false) [(8, Some 80)] 800); PutI 9 (mkIssue (IClosed true) [(9, Some 90)] 900);
   Fetch [(4, Some (mkPatch PArchived [(4, None)] 400)); (4, None)] [(9, Some (mkIssue (IClosed true) [(9, Some 91)] 900))];
   WriteAllI; RemoveP 3 (Some ex_patch3)].

Lemma ex_history_wf : wf_store (kv_store (st_p (run_steps ex_history))).
Proof.
  assert (kv_store (st_p (run_steps ex_history)) = [(1, ex_patch1); (3, ex_patch3)]) as -> by (vm_compute; reflexivity).
  split.
  - intros id p [E|[E|[]]]; inversion E; subst; simpl; split.
    + repeat constructor; simpl; intuition discriminate.
    + left; reflexivity.
    + repeat constructor; simpl; intuition.
    + left; reflexivity.
  - intros id1 p1 id2 p2 r [E1|[E1|[]]] [E2|[E2|[]]]; inversion E1; inversion E2; subst; simpl;
      intuition congruence.
Qed.

Lemma ex_history_find :
  cp_find (kv_table (st_p (run_steps ex_history))) 1 = ROk (Some (1, ex_patch1, ex_rev1)) /\
  cp_find (kv_table (st_p (run_steps ex_history))) 2 = ROk None /\
  cp_find (kv_table (st_p (run_steps ex_history))) 5 = ROk None /\
  cp_find (kv_table (st_p (run_steps ex_history))) 6 = ROk None /\
  cp_find (kv_table (st_p (run_steps ex_history))) 7 = ROk None.
Proof. vm_compute. repeat split. Qed.

(* before b69853b: json_tree + no type filter *)
Lemma old_find_by_revision_refuted :
  let t := kv_table (st_p (run_steps ex_history)) in
  let s := kv_store (st_p (run_steps ex_history)) in
  wf_store s /\
  (* a revision comment id and a review comment id: Err instead of Ok(None) *)
  cp_find_tree t 5 = RErr /\ cp_find_tree t 6 = RErr /\ dp_find s 5 = None /\ dp_find s 6 = None /\
  (* a redacted revision id and a redacted comment id: panic instead of Ok(None) *)
  cp_find_tree t 2 = RPanic /\ cp_find_tree t 7 = RPanic /\ dp_find s 2 = None /\ dp_find s 7 = None.
Proof. cbv zeta. split; [exact ex_history_wf|]. vm_compute. repeat split. Qed.

(* before d9a762a: the close reason was not part of the filter *)
Lemma old_issue_list_by_status_refuted :
  let t := kv_table (st_i (run_steps ex_history)) in
  let s := kv_store (st_i (run_steps ex_history)) in
  ci_list_by_old t (IClosed true) = ROk s /\ length s = 2%nat /\
  length (di_list_by s (IClosed true)) = 1%nat.
Proof. vm_compute. repeat split. Qed.

(* before 27f2274: Cache::remove deleted the row although the object still evaluates
   (another peer holds it) *)
Lemma old_remove_refuted :
  let s := fold_left apply_step_old ex_history state0 in
  lookup 3 (kv_store (st_p s)) = Some ex_patch3 /\
  c_get parse_patch (kv_table (st_p s)) 3 = ROk None /\
  c_get parse_patch (kv_table (st_p (run_steps ex_history))) 3 = ROk (Some ex_patch3).
Proof. vm_compute. repeat split. Qed.
