(* SyncProofs.v — proofs about model/Sync.v (C25). *)
From HW Require Import lib.Base model.Sync.
Local Open Scope N_scope.

(* ---------- sets ---------- *)

Lemma ins_sorted_In k s x : In x (ins_sorted k s) <-> x = k \/ In x s.
Proof.
  induction s as [|y s IH]; cbn [ins_sorted].
  - simpl. intuition.
  - destruct (N.ltb k y); simpl in *; rewrite ?IH; intuition.
Qed.

Lemma ins_sorted_NoDup k s : ~ In k s -> NoDup s -> NoDup (ins_sorted k s).
Proof.
  induction s as [|y s IH]; cbn [ins_sorted]; intros Hn Hd.
  - constructor; [intros [] | constructor].
  - destruct (N.ltb k y).
    + constructor; assumption.
    + inversion Hd as [|? ? Hy Hd']; subst. constructor.
      * rewrite ins_sorted_In. intros [E|Hin]; [subst; apply Hn; left; reflexivity | exact (Hy Hin)].
      * apply IH; [intros Hin; apply Hn; right; exact Hin | exact Hd'].
Qed.

Lemma set_add_In k s x : In x (set_add k s) <-> x = k \/ In x s.
Proof.
  unfold set_add. destruct (memN k s) eqn:E.
  - apply memN_In in E. split; [intros H; right; exact H | intros [->|H]; assumption].
  - apply ins_sorted_In.
Qed.

Lemma memN_false k s : memN k s = false <-> ~ In k s.
Proof.
  rewrite <- memN_In. destruct (memN k s); split; intros H.
  - discriminate H.
  - exfalso. apply H. reflexivity.
  - intros H'. discriminate H'.
  - reflexivity.
Qed.

Lemma set_add_NoDup k s : NoDup s -> NoDup (set_add k s).
Proof.
  intros Hd. unfold set_add. destruct (memN k s) eqn:E; [exact Hd|].
  apply ins_sorted_NoDup; [apply memN_false; exact E | exact Hd].
Qed.

Lemma set_remove_In k s x : In x (set_remove k s) <-> In x s /\ x <> k.
Proof.
  unfold set_remove. rewrite filter_In, negb_true_iff, N.eqb_neq. reflexivity.
Qed.

Lemma set_remove_NoDup k s : NoDup s -> NoDup (set_remove k s).
Proof. apply NoDup_filter. Qed.

Lemma fold_add_NoDup l : forall s, NoDup s -> NoDup (fold_left (fun s k => set_add k s) l s).
Proof. induction l as [|k l IH]; intros s Hd; [exact Hd|]. cbn [fold_left]. apply IH. apply set_add_NoDup. exact Hd. Qed.

Lemma fold_add_In l : forall s x, In x (fold_left (fun s k => set_add k s) l s) <-> In x s \/ In x l.
Proof.
  induction l as [|k l IH]; intros s x; cbn [fold_left].
  - simpl. intuition.
  - rewrite IH, set_add_In. simpl. intuition.
Qed.

Lemma set_of_list_NoDup l : NoDup (set_of_list l).
Proof. apply fold_add_NoDup. constructor. Qed.

Lemma set_of_list_In l x : In x (set_of_list l) <-> In x l.
Proof. unfold set_of_list. rewrite fold_add_In. simpl. intuition. Qed.

Lemma set_union_NoDup a b : NoDup a -> NoDup (set_union a b).
Proof. apply fold_add_NoDup. Qed.

Lemma set_union_In a b x : In x (set_union a b) <-> In x a \/ In x b.
Proof. apply fold_add_In. Qed.

Lemma set_diff_In a b x : In x (set_diff a b) <-> In x a /\ ~ In x b.
Proof. unfold set_diff. rewrite filter_In, negb_true_iff, memN_false. reflexivity. Qed.

(* counting the members of P inside Y reaches |P| exactly when P is included in Y *)
Lemma count_reaches_iff_incl (P Y : list N) :
  NoDup P -> NoDup Y -> (len P <= count_in Y P <-> incl P Y).
Proof.
  intros HP HY. unfold len, count_in.
  set (F := filter (fun x => memN x P) Y).
  assert (HF : NoDup F) by (apply NoDup_filter; exact HY).
  assert (HFP : incl F P).
  { intros x Hx. apply filter_In in Hx. apply memN_In. exact (proj2 Hx). }
  split.
  - intros Hle.
    assert (Hinc : incl P F).
    { apply NoDup_length_incl; [exact HF | lia | exact HFP]. }
    intros x Hx. specialize (Hinc x Hx). apply filter_In in Hinc. exact (proj1 Hinc).
  - intros Hinc.
    assert (Hinc' : incl P F).
    { intros x Hx. apply filter_In. split; [exact (Hinc x Hx) | apply memN_In; exact Hx]. }
    pose proof (NoDup_incl_length HP Hinc'). lia.
Qed.

Lemma is_nil_true {A} (l : list A) : is_nil l = true <-> l = [].
Proof. destruct l; simpl; split; intros H; try reflexivity; discriminate. Qed.

(* ---------- replication factor ---------- *)

Lemma rf_upper_bound r :
  match rf_upper r with
  | None => rf_bound r = rf_lower r
  | Some max => rf_bound r = max
  end.
Proof. destruct r; reflexivity. Qed.

(* ---------- Announcer ---------- *)

Definition ann_ok (a : announcer) : Prop :=
  NoDup (a_pref a) /\ NoDup (a_synced a) /\ NoDup (a_to_sync a) /\
  ~ In (a_local a) (a_pref a) /\ ~ In (a_local a) (a_synced a) /\ ~ In (a_local a) (a_to_sync a).

(* the announcer's target, stated on sets: every preferred seed is synced AND
   the replica bound is reached by the number of distinct synced nodes *)
Definition a_target_met (a : announcer) : Prop :=
  incl (a_pref a) (a_synced a) /\ rf_bound (a_repl a) <= len (a_synced a).

Lemma a_target_reached_iff a :
  ann_ok a -> (a_target_reached a <> None <-> a_target_met a).
Proof.
  intros (Hp & Hs & _). unfold a_target_reached, a_target_met, a_counts.
  pose proof (count_reaches_iff_incl (a_pref a) (a_synced a) Hp Hs) as Hc.
  pose proof (rf_upper_bound (a_repl a)) as Hb.
  assert (Hpref : (is_nil (a_pref a) || N.leb (len (a_pref a)) (count_in (a_synced a) (a_pref a))) = true
                  <-> incl (a_pref a) (a_synced a)).
  { rewrite orb_true_iff, N.leb_le, Hc, is_nil_true. split.
    - intros [E|H]; [rewrite E; intros x []| exact H].
    - intros H. right. exact H. }
  destruct (rf_upper (a_repl a)) as [max|];
    destruct (is_nil (a_pref a) || N.leb (len (a_pref a)) (count_in (a_synced a) (a_pref a))) eqn:E1; cbn [andb].
  - destruct (N.leb max (len (a_synced a))) eqn:E2.
    + apply N.leb_le in E2. split; [intros _; split; [apply Hpref; reflexivity | lia] | intros _; discriminate].
    + apply N.leb_gt in E2. split; [intros H; exfalso; apply H; reflexivity | intros [_ H]; lia].
  - split; [intros H; exfalso; apply H; reflexivity | intros [H _]; apply Hpref in H; discriminate].
  - destruct (N.leb (rf_lower (a_repl a)) (len (a_synced a))) eqn:E2.
    + apply N.leb_le in E2. split; [intros _; split; [apply Hpref; reflexivity | lia] | intros _; discriminate].
    + apply N.leb_gt in E2. split; [intros H; exfalso; apply H; reflexivity | intros [_ H]; lia].
  - split; [intros H; exfalso; apply H; reflexivity | intros [H _]; apply Hpref in H; discriminate].
Qed.

Lemma a_target_reached_counts a o :
  a_target_reached a = Some o ->
  ao_synced o = len (a_synced a) /\ ao_preferred o = count_in (a_synced a) (a_pref a).
Proof.
  unfold a_target_reached, a_counts. destruct (rf_upper (a_repl a));
    destruct (_ && _); intros H; inversion H; subst; split; reflexivity.
Qed.

Lemma announcer_new_ok c a : announcer_new c = inr a -> ann_ok a /\ ~ a_target_met a /\ a_local a = ac_local c.
Proof.
  unfold announcer_new.
  set (local := ac_local c).
  set (pref := set_remove local (set_of_list (ac_pref c))).
  set (synced := set_remove local (set_of_list (ac_synced c))).
  set (unsynced := set_remove local (set_of_list (ac_unsynced c))).
  destruct (is_nil synced && is_nil unsynced); [discriminate|].
  destruct (is_nil unsynced); [discriminate|].
  set (unsynced' := set_union unsynced (set_diff pref synced)).
  destruct (N.eqb _ 0 && is_nil pref); [discriminate|].
  set (a0 := {| a_local := local; a_pref := pref; a_repl := rf_min (ac_repl c) (len unsynced');
                a_synced := synced; a_to_sync := unsynced' |}).
  assert (Hok : ann_ok a0).
  { unfold ann_ok, a0; cbn [a_local a_pref a_synced a_to_sync].
    assert (Hl : forall l, ~ In local (set_remove local (set_of_list l))).
    { intros l H. apply set_remove_In in H. destruct H as [_ H]. apply H. reflexivity. }
    repeat split.
    - apply set_remove_NoDup, set_of_list_NoDup.
    - apply set_remove_NoDup, set_of_list_NoDup.
    - apply set_union_NoDup, set_remove_NoDup, set_of_list_NoDup.
    - apply Hl.
    - apply Hl.
    - unfold unsynced'. rewrite set_union_In, set_diff_In. intros [H|[H _]]; exact (Hl _ H). }
  destruct (a_target_reached a0) as [o|] eqn:Et; [discriminate|].
  intros H. inversion H; subst a. split; [exact Hok|]. split; [|reflexivity].
  intros Hm. apply (a_target_reached_iff a0 Hok) in Hm. exact (Hm Et).
Qed.

Lemma synced_with_ok a n : ann_ok a -> ann_ok (fst (synced_with a n)) /\ a_local (fst (synced_with a n)) = a_local a.
Proof.
  intros Hok. unfold synced_with. destruct (N.eqb n (a_local a)) eqn:E; cbn [fst]; [split; [exact Hok | reflexivity]|].
  apply N.eqb_neq in E. destruct Hok as (H1 & H2 & H3 & H4 & H5 & H6).
  split; [|reflexivity]. unfold ann_ok; cbn [a_local a_pref a_synced a_to_sync]. repeat split.
  - exact H1.
  - apply set_add_NoDup. exact H2.
  - apply set_remove_NoDup. exact H3.
  - exact H4.
  - rewrite set_add_In. intros [Hx|Hx]; [apply E; symmetry; exact Hx | exact (H5 Hx)].
  - rewrite set_remove_In. intros [Hx _]. exact (H6 Hx).
Qed.

(* states reachable from a constructed announcer by any calls of synced_with
   (the other calls do not change the state) *)
Inductive areach (a0 : announcer) : announcer -> Prop :=
| areach_refl : areach a0 a0
| areach_step a n : areach a0 a -> areach a0 (fst (synced_with a n)).

(* ... by calls that all answered Continue (no success reported so far) *)
Inductive areach_quiet (a0 : announcer) : announcer -> Prop :=
| areachq_refl : areach_quiet a0 a0
| areachq_step a n p : areach_quiet a0 a -> snd (synced_with a n) = AContinue p ->
    areach_quiet a0 (fst (synced_with a n)).

Lemma areach_ok c a0 a : announcer_new c = inr a0 -> areach a0 a -> ann_ok a /\ a_local a = ac_local c.
Proof.
  intros Hn Hr. induction Hr as [|a n Hr IH].
  - destruct (announcer_new_ok _ _ Hn) as (H1 & _ & H3). split; assumption.
  - destruct IH as [Hok Hl]. destruct (synced_with_ok a n Hok) as [H1 H2]. split; [exact H1 | congruence].
Qed.

Lemma areach_quiet_areach a0 a : areach_quiet a0 a -> areach a0 a.
Proof. intros H. induction H; [constructor | constructor; assumption]. Qed.

Definition is_abreak (fl : aflow) : Prop := match fl with ABreak _ _ => True | AContinue _ => False end.
Definition is_asuccess (r : aresult) : Prop := match r with ASuccess _ _ => True | _ => False end.
Definition is_atimedout (r : aresult) : Prop := match r with ATimedOut _ _ => True | _ => False end.

Lemma synced_with_break_iff a n :
  ann_ok a ->
  (is_abreak (snd (synced_with a n)) <-> n <> a_local a /\ a_target_met (fst (synced_with a n))).
Proof.
  intros Hok. pose proof (synced_with_ok a n Hok) as [Hok' _].
  unfold synced_with in *. destruct (N.eqb n (a_local a)) eqn:E; cbn [fst snd] in *.
  - apply N.eqb_eq in E. split; [intros [] | intros [H _]; exact (H E)].
  - apply N.eqb_neq in E. unfold a_finished.
    pose proof (a_target_reached_iff _ Hok') as Hi.
    destruct (a_target_reached _) as [o|]; cbn [is_abreak].
    + split; [intros _; split; [exact E | apply Hi; discriminate] | intros _; exact I].
    + split; [intros [] | intros [_ H]; apply Hi in H; apply H; reflexivity].
Qed.

Lemma timed_out_iff a :
  ann_ok a ->
  (is_asuccess (timed_out a) <-> a_target_met a) /\ (is_atimedout (timed_out a) <-> ~ a_target_met a).
Proof.
  intros Hok. unfold timed_out. pose proof (a_target_reached_iff _ Hok) as Hi.
  destruct (a_target_reached a) as [o|]; cbn [is_asuccess is_atimedout].
  - assert (Hm : a_target_met a) by (apply Hi; discriminate).
    tauto.
  - assert (Hm : ~ a_target_met a) by (intros H; apply Hi in H; apply H; reflexivity).
    tauto.
Qed.

Theorem announcer_success_iff_target :
  forall c a0 a, announcer_new c = inr a0 -> areach a0 a ->
  (forall n, is_abreak (snd (synced_with a n)) <-> n <> a_local a /\ a_target_met (fst (synced_with a n))) /\
  (is_asuccess (timed_out a) <-> a_target_met a) /\
  (is_atimedout (timed_out a) <-> ~ a_target_met a).
Proof.
  intros c a0 a Hn Hr. destruct (areach_ok _ _ _ Hn Hr) as [Hok _].
  split; [intros n; apply synced_with_break_iff; exact Hok | apply timed_out_iff; exact Hok].
Qed.

(* as long as no success has been reported the target is not met, so every
   Continue was truthful, and the next answer is Break exactly when the target
   becomes met (also for the local node, which changes nothing) *)
Theorem announcer_first_success :
  forall c a0 a, announcer_new c = inr a0 -> areach_quiet a0 a ->
  ~ a_target_met a /\
  (forall n, is_abreak (snd (synced_with a n)) <-> a_target_met (fst (synced_with a n))).
Proof.
  intros c a0 a Hn Hq.
  assert (Hnot : ~ a_target_met a).
  { induction Hq as [|a n p Hq IH Hc].
    - exact (proj1 (proj2 (announcer_new_ok _ _ Hn))).
    - destruct (areach_ok _ _ _ Hn (areach_quiet_areach _ _ Hq)) as [Hok _].
      pose proof (synced_with_break_iff a n Hok) as Hb. rewrite Hc in Hb. cbn [is_abreak] in Hb.
      intros Hm. destruct (N.eq_dec n (a_local a)) as [E|E].
      + unfold synced_with in Hm. apply N.eqb_eq in E. rewrite E in Hm. cbn [fst] in Hm. exact (IH Hm).
      + apply Hb. split; assumption. }
  split; [exact Hnot|]. intros n.
  destruct (areach_ok _ _ _ Hn (areach_quiet_areach _ _ Hq)) as [Hok _].
  rewrite (synced_with_break_iff a n Hok). split; [intros [_ H]; exact H|].
  intros Hm. split; [|exact Hm]. intros E. apply Hnot.
  unfold synced_with in Hm. apply N.eqb_eq in E. rewrite E in Hm. exact Hm.
Qed.

(* running out of nodes is reported only by can_continue, only when to_sync is
   empty, and — before any success was reported — only with the target unmet *)
Theorem announcer_no_nodes_only_when_unmet :
  forall c a0 a r, announcer_new c = inr a0 -> areach_quiet a0 a ->
  can_continue a = Some r -> r = ANoNodes (a_synced a) /\ a_to_sync a = [] /\ ~ a_target_met a.
Proof.
  intros c a0 a r Hn Hq Hc. unfold can_continue in Hc.
  destruct (is_nil (a_to_sync a)) eqn:E; [|discriminate]. inversion Hc; subst r.
  split; [reflexivity|]. split; [apply is_nil_true; exact E|].
  exact (proj1 (announcer_first_success c a0 a Hn Hq)).
Qed.

(* ReplicationFactor: a Range always has lower < upper, also after `min` *)
Definition rf_wf (r : rfactor) : Prop := match r with MustReach _ => True | Range lo hi => lo < hi end.

Lemma rf_range_wf lo hi : rf_wf (rf_range lo hi).
Proof. unfold rf_range. destruct (N.leb hi lo) eqn:E; [exact I|]. apply N.leb_gt in E. exact E. Qed.

Lemma rf_min_wf r n : rf_wf (rf_min r n).
Proof. destruct r; [exact I | apply rf_range_wf]. Qed.

Theorem targets_wellformed :
  (forall c a, announcer_new c = inr a -> rf_wf (a_repl a) /\ (rf_lower (a_repl a) = 0 -> a_pref a <> [])) /\
  (forall c f, fetcher_new c = inr f -> rf_wf (f_repl f) /\ (rf_lower (f_repl f) = 0 -> f_seeds f <> [])).
Proof.
  split.
  - intros c a. unfold announcer_new.
    destruct (is_nil _ && is_nil _); [discriminate|]. destruct (is_nil _); [discriminate|].
    destruct (N.eqb _ 0 && is_nil _) eqn:E; [discriminate|].
    destruct (a_target_reached _); [discriminate|]. intros H. inversion H; subst a; clear H. cbn [a_repl a_pref].
    split; [apply rf_min_wf|]. intros H0. apply andb_false_iff in E. destruct E as [E|E].
    + apply N.eqb_neq in E. contradiction.
    + intros Hn. rewrite Hn in E. discriminate.
  - intros c f. unfold fetcher_new. destruct (is_nil _); [discriminate|].
    destruct (N.eqb _ 0 && is_nil _) eqn:E; [discriminate|].
    intros H. inversion H; subst f; clear H. cbn [f_repl f_seeds].
    split; [apply rf_min_wf|]. intros H0. apply andb_false_iff in E. destruct E as [E|E].
    + apply N.eqb_neq in E. contradiction.
    + intros Hn. rewrite Hn in E. discriminate.
Qed.

(* the local node: never a preferred seed of the target, never among the synced
   nodes (so never counted), never handed out by to_sync *)
Theorem announcer_local_never_counted :
  forall c a0 a, announcer_new c = inr a0 -> areach a0 a ->
  a_local a = ac_local c /\
  ~ In (ac_local c) (a_pref a) /\ ~ In (ac_local c) (a_synced a) /\ ~ In (ac_local c) (to_sync a) /\
  (forall n o s, snd (synced_with a n) = ABreak o s ->
     ~ In (ac_local c) s /\ NoDup s /\ ao_synced o = len s /\ ao_preferred o = count_in s (a_pref a)).
Proof.
  intros c a0 a Hn Hr. destruct (areach_ok _ _ _ Hn Hr) as [Hok Hl].
  pose proof Hok as (H1 & H2 & H3 & H4 & H5 & H6). rewrite Hl in *.
  split; [reflexivity|]. split; [exact H4|]. split; [exact H5|]. split.
  - unfold to_sync. intros H. apply filter_In in H. exact (H6 (proj1 H)).
  - intros n o s Hb.
    assert (Hr' : areach a0 (fst (synced_with a n))) by (constructor; exact Hr).
    destruct (areach_ok _ _ _ Hn Hr') as [Hok' Hl'].
    unfold synced_with in *. destruct (N.eqb n (a_local a)); cbn [fst snd] in *; [discriminate|].
    unfold a_finished in Hb.
    destruct (a_target_reached _) as [o'|] eqn:Et; [|discriminate].
    inversion Hb; subst o' s. clear Hb.
    destruct (a_target_reached_counts _ _ Et) as [Hc1 Hc2]. cbn [a_synced a_pref] in Hc1, Hc2.
    destruct Hok' as (_ & K2 & _ & _ & K5 & _). cbn [a_synced a_local] in K2, K5. rewrite Hl in K5.
    repeat split; assumption.
Qed.

(* ---------- Fetcher ---------- *)

Lemma results_get_None n rs : results_get n rs = None <-> ~ In n (map fst rs).
Proof.
  induction rs as [|[k ok] rs IH]; cbn [results_get map fst In].
  - split; [intros _ [] | reflexivity].
  - destruct (N.eqb k n) eqn:E.
    + apply N.eqb_eq in E. split; [discriminate | intros H; exfalso; apply H; left; exact E].
    + apply N.eqb_neq in E. rewrite IH. split; [intros H [H'|H']; [exact (E H') | exact (H H')] | intros H H'; apply H; right; exact H'].
Qed.

Lemma include_node_spec f n :
  include_node f n = true <-> ~ In n (map fst (f_results f)) /\ n <> f_local f.
Proof.
  unfold include_node. rewrite andb_true_iff, negb_true_iff, N.eqb_neq, <- results_get_None.
  destruct (results_get n (f_results f)); split; intros [H1 H2]; split; try reflexivity; try discriminate;
    try (intros E; apply H2; symmetry; exact E); try reflexivity.
Qed.

Definition f_succeeded (f : fetcher) : list N := map fst (filter snd (f_results f)).

Definition fetch_ok (f : fetcher) : Prop :=
  NoDup (map fst (f_results f)) /\ ~ In (f_local f) (map fst (f_results f)) /\ NoDup (f_seeds f).

(* the fetcher's target on sets: every preferred seed was fetched from (if there
   are any) OR the replica bound is reached by the number of distinct nodes
   fetched from *)
Definition f_target_met (f : fetcher) : Prop :=
  (f_seeds f <> [] /\ incl (f_seeds f) (f_succeeded f)) \/ rf_bound (f_repl f) <= len (f_succeeded f).

Lemma NoDup_map_fst_filter {B} (p : N * B -> bool) (l : list (N * B)) :
  NoDup (map fst l) -> NoDup (map fst (filter p l)).
Proof.
  induction l as [|x l IH]; cbn [map filter]; intros H; [constructor|].
  inversion H as [|? ? Hx Hd]; subst. destruct (p x); cbn [map]; [|apply IH; exact Hd].
  constructor; [|apply IH; exact Hd]. intros Hin. apply Hx.
  apply in_map_iff in Hin. destruct Hin as (y & Hy & Hin). apply filter_In in Hin.
  apply in_map_iff. exists y. split; [exact Hy | exact (proj1 Hin)].
Qed.

Lemma f_succeeded_NoDup f : fetch_ok f -> NoDup (f_succeeded f).
Proof. intros (H & _). apply NoDup_map_fst_filter. exact H. Qed.

Lemma f_succeeded_local f : fetch_ok f -> ~ In (f_local f) (f_succeeded f).
Proof.
  intros (_ & H & _) Hin. apply H. unfold f_succeeded in Hin.
  apply in_map_iff in Hin. destruct Hin as (y & Hy & Hin). apply filter_In in Hin.
  apply in_map_iff. exists y. split; [exact Hy | exact (proj1 Hin)].
Qed.

Lemma f_target_reached_iff f :
  fetch_ok f -> (f_target_reached f <> None <-> f_target_met f).
Proof.
  intros Hok. pose proof (f_succeeded_NoDup f Hok) as HS. destruct Hok as (_ & _ & Hseeds).
  unfold f_target_reached, f_target_met, f_counts. fold (f_succeeded f).
  pose proof (count_reaches_iff_incl (f_seeds f) (f_succeeded f) Hseeds HS) as Hc.
  pose proof (rf_upper_bound (f_repl f)) as Hb.
  destruct (negb (is_nil (f_seeds f)) && N.leb (len (f_seeds f)) (count_in (f_succeeded f) (f_seeds f))) eqn:E1.
  - apply andb_true_iff in E1. destruct E1 as [E1 E2]. apply negb_true_iff in E1. apply N.leb_le in E2.
    split; [intros _; left; split; [intros E; rewrite E in E1; discriminate | apply Hc; exact E2] | intros _; discriminate].
  - assert (Hnp : ~ (f_seeds f <> [] /\ incl (f_seeds f) (f_succeeded f))).
    { intros [Hne Hinc]. apply Hc in Hinc. apply N.leb_le in Hinc. rewrite Hinc, andb_true_r in E1.
      apply negb_false_iff, is_nil_true in E1. exact (Hne E1). }
    destruct (rf_upper (f_repl f)) as [max|].
    + destruct (N.leb max (len (f_succeeded f))) eqn:E2.
      * apply N.leb_le in E2. split; [intros _; right; lia | intros _; discriminate].
      * apply N.leb_gt in E2. split; [intros H; exfalso; apply H; reflexivity | intros [H|H]; [exfalso; exact (Hnp H) | lia]].
    + destruct (N.leb (rf_lower (f_repl f)) (len (f_succeeded f))) eqn:E2.
      * apply N.leb_le in E2. split; [intros _; right; lia | intros _; discriminate].
      * apply N.leb_gt in E2. split; [intros H; exfalso; apply H; reflexivity | intros [H|H]; [exfalso; exact (Hnp H) | lia]].
Qed.

Lemma fetcher_new_ok c f : fetcher_new c = inr f -> fetch_ok f /\ f_local f = fc_local c /\ f_results f = [].
Proof.
  unfold fetcher_new. destruct (is_nil (fetcher_candidates c)); [discriminate|].
  destruct (N.eqb _ 0 && is_nil _); [discriminate|].
  intros H. inversion H; subst f; clear H. unfold fetch_ok; cbn [f_results f_local f_seeds map].
  repeat split; try constructor. intros []. apply set_of_list_NoDup.
Qed.

Lemma pop_candidate_spec incl cs cs' n :
  pop_candidate incl cs = (cs', Some n) -> incl n = true.
Proof.
  induction cs as [|c cs IH]; cbn [pop_candidate]; [discriminate|].
  destruct (incl c) eqn:E; [intros H; inversion H; subst; exact E | exact IH].
Qed.

Lemma next_node_results f : f_results (fst (next_node f)) = f_results f /\ f_local (fst (next_node f)) = f_local f
  /\ f_seeds (fst (next_node f)) = f_seeds f /\ f_repl (fst (next_node f)) = f_repl f.
Proof. unfold next_node. destruct (pop_candidate _ _). repeat split. Qed.

Lemma next_fetch_results f : f_results (fst (next_fetch f)) = f_results f /\ f_local (fst (next_fetch f)) = f_local f
  /\ f_seeds (fst (next_fetch f)) = f_seeds f /\ f_repl (fst (next_fetch f)) = f_repl f.
Proof. unfold next_fetch. destruct (f_ready f); repeat split. Qed.

Lemma fetch_ok_same f g :
  f_results g = f_results f -> f_local g = f_local f -> f_seeds g = f_seeds f -> fetch_ok f -> fetch_ok g.
Proof. unfold fetch_ok. intros -> -> ->. exact (fun H => H). Qed.

Lemma NoDup_snoc (l : list N) n : ~ In n l -> NoDup l -> NoDup (l ++ [n]).
Proof.
  induction l as [|x l IH]; cbn [app]; intros Hn Hd.
  - constructor; [intros [] | constructor].
  - inversion Hd as [|? ? Hx Hd']; subst. constructor.
    + rewrite in_app_iff. cbn [In]. intros [H|[H|[]]]; [exact (Hx H) | apply Hn; left; symmetry; exact H].
    + apply IH; [intros H; apply Hn; right; exact H | exact Hd'].
Qed.

Lemma push_result_ok f n ok :
  fetch_ok f -> include_node f n = true -> fetch_ok (with_results f (f_results f ++ [(n, ok)])).
Proof.
  intros (H1 & H2 & H3) Hi. apply include_node_spec in Hi. destruct Hi as [Hn Hl].
  unfold fetch_ok; cbn [with_results f_results f_local f_seeds]. rewrite map_app. cbn [map fst].
  repeat split.
  - apply NoDup_snoc; assumption.
  - rewrite in_app_iff. cbn [In]. intros [H|[H|[]]]; [exact (H2 H) | exact (Hl H)].
  - exact H3.
Qed.

Lemma fetch_failed_ok f n : fetch_ok f -> fetch_ok (fetch_failed f n).
Proof.
  intros Hok. unfold fetch_failed. destruct (include_node f n) eqn:E; [|exact Hok].
  apply push_result_ok; assumption.
Qed.

Lemma fetch_complete_ok f n ok : fetch_ok f -> fetch_ok (fst (fetch_complete f n ok)).
Proof.
  intros Hok. unfold fetch_complete. destruct (include_node f n) eqn:E; cbn [fst]; [|exact Hok].
  apply push_result_ok; assumption.
Qed.

(* states reachable from a constructed fetcher by any calls, with any node ids *)
Inductive freach (f0 : fetcher) : fetcher -> Prop :=
| freach_refl : freach f0 f0
| freach_next_node f : freach f0 f -> freach f0 (fst (next_node f))
| freach_ready f n : freach f0 f -> freach f0 (ready_to_fetch f n)
| freach_next_fetch f : freach f0 f -> freach f0 (fst (next_fetch f))
| freach_failed f n : freach f0 f -> freach f0 (fetch_failed f n)
| freach_complete f n ok : freach f0 f -> freach f0 (fst (fetch_complete f n ok)).

Lemma fetch_failed_local f n : f_local (fetch_failed f n) = f_local f.
Proof. unfold fetch_failed. destruct (include_node f n); reflexivity. Qed.
Lemma fetch_complete_local f n ok : f_local (fst (fetch_complete f n ok)) = f_local f.
Proof. unfold fetch_complete. destruct (include_node f n); reflexivity. Qed.

Lemma freach_ok c f0 f : fetcher_new c = inr f0 -> freach f0 f -> fetch_ok f /\ f_local f = fc_local c.
Proof.
  intros Hn Hr. induction Hr as [|f Hr IH|f n Hr IH|f Hr IH|f n Hr IH|f n ok Hr IH].
  - destruct (fetcher_new_ok _ _ Hn) as (H1 & H2 & _). split; assumption.
  - destruct IH as [Hok Hl]. destruct (next_node_results f) as (E1 & E2 & E3 & _).
    split; [exact (fetch_ok_same f _ E1 E2 E3 Hok) | congruence].
  - destruct IH as [Hok Hl]. split; [exact Hok | exact Hl].
  - destruct IH as [Hok Hl]. destruct (next_fetch_results f) as (E1 & E2 & E3 & _).
    split; [exact (fetch_ok_same f _ E1 E2 E3 Hok) | congruence].
  - destruct IH as [Hok Hl]. split; [apply fetch_failed_ok; exact Hok | rewrite fetch_failed_local; exact Hl].
  - destruct IH as [Hok Hl]. split; [apply fetch_complete_ok; exact Hok | rewrite fetch_complete_local; exact Hl].
Qed.

Definition is_fbreak (fl : fflow) : Prop := match fl with FBreak _ _ _ => True | FContinue _ => False end.
Definition is_freached (r : fresult) : Prop := match r with FTargetReached _ _ _ => True | _ => False end.
Definition is_ferror (r : fresult) : Prop := match r with FTargetError _ _ _ _ => True | _ => False end.

Lemma f_finished_iff f : fetch_ok f -> (is_fbreak (f_finished f) <-> f_target_met f).
Proof.
  intros Hok. unfold f_finished. pose proof (f_target_reached_iff f Hok) as Hi.
  destruct (f_target_reached f); cbn [is_fbreak].
  - split; [intros _; apply Hi; discriminate | intros _; exact I].
  - split; [intros [] | intros H; apply Hi in H; apply H; reflexivity].
Qed.

Lemma fetch_complete_flow f n ok : snd (fetch_complete f n ok) = f_finished (fst (fetch_complete f n ok)).
Proof. unfold fetch_complete, fetch_complete_unguarded. destruct (include_node f n); reflexivity. Qed.

Theorem fetcher_success_iff_target :
  forall c f0 f, fetcher_new c = inr f0 -> freach f0 f ->
  (forall n ok, is_fbreak (snd (fetch_complete f n ok)) <-> f_target_met (fst (fetch_complete f n ok))) /\
  (is_freached (finish f) <-> f_target_met f) /\
  (is_ferror (finish f) <-> ~ f_target_met f).
Proof.
  intros c f0 f Hn Hr. destruct (freach_ok _ _ _ Hn Hr) as [Hok _]. split.
  - intros n ok. rewrite fetch_complete_flow. apply f_finished_iff. apply fetch_complete_ok. exact Hok.
  - unfold finish. pose proof (f_target_reached_iff f Hok) as Hi.
    destruct (f_target_reached f); cbn [is_freached is_ferror].
    + assert (Hm : f_target_met f) by (apply Hi; discriminate).
      tauto.
    + assert (Hm : ~ f_target_met f) by (intros H; apply Hi in H; apply H; reflexivity).
      tauto.
Qed.

(* never hands out the local node, nor a node that already has a result — in
   ANY state, reachable or not *)
Theorem fetcher_hand_out :
  forall f n,
  (snd (next_node f) = Some n -> n <> f_local f /\ results_get n (f_results f) = None) /\
  (snd (next_fetch f) = Some n -> n <> f_local f /\ results_get n (f_results f) = None).
Proof.
  intros f n. split.
  - unfold next_node. destruct (pop_candidate (include_node f) (f_cands f)) as [cs r] eqn:E. cbn [snd].
    intros ->. apply pop_candidate_spec in E. apply include_node_spec in E. destruct E as [E1 E2].
    split; [exact E2 | apply results_get_None; exact E1].
  - unfold next_fetch. destruct (f_ready f) as [|m rd]; cbn [snd]; [discriminate|].
    destruct (include_node (with_ready f rd) m) eqn:E; [|discriminate].
    intros H. inversion H; subst m. apply include_node_spec in E. cbn [with_ready f_results f_local] in E.
    destruct E as [E1 E2]. split; [exact E2 | apply results_get_None; exact E1].
Qed.

(* the local node never has a result, so it is never counted; the counts are
   cardinalities of sets of distinct nodes *)
Theorem fetcher_local_never_counted :
  forall c f0 f, fetcher_new c = inr f0 -> freach f0 f ->
  f_local f = fc_local c /\
  ~ In (fc_local c) (map fst (f_results f)) /\
  NoDup (map fst (f_results f)) /\
  NoDup (f_succeeded f) /\ ~ In (fc_local c) (f_succeeded f) /\
  fp_succeeded (f_progress f) = len (f_succeeded f) /\
  fp_preferred (f_progress f) = count_in (f_succeeded f) (f_seeds f).
Proof.
  intros c f0 f Hn Hr. destruct (freach_ok _ _ _ Hn Hr) as [Hok Hl].
  pose proof (f_succeeded_NoDup f Hok) as H1. pose proof (f_succeeded_local f Hok) as H2.
  destruct Hok as (K1 & K2 & K3). rewrite Hl in *.
  repeat split; try assumption.
Qed.
