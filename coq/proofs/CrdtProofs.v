(* CrdtProofs.v — semilattice laws for every CRDT instance of model/Crdt.v,
   generic in the value lattice, with no bound on sizes; and the
   last-writer-wins read theorems. *)
From HW Require Import lib.Base lib.SMap model.Crdt.

Record SLaws (S : SL) : Prop := {
  join_wf : forall a b, wf S a -> wf S b -> wf S (join S a b);
  join_assoc : forall a b c, wf S a -> wf S b -> wf S c ->
      join S (join S a b) c = join S a (join S b c);
  join_comm : forall a b, wf S a -> wf S b -> join S a b = join S b a;
  join_idem : forall a, wf S a -> join S a a = a;
}.

Lemma bool_laws : SLaws bool_sl.
Proof.
  constructor; simpl; intros; auto.
  - symmetry. apply orb_assoc.
  - apply orb_comm.
  - apply orb_diag.
Qed.

Lemma unit_laws : SLaws unit_sl.
Proof. constructor; simpl; intros; auto. destruct a; reflexivity. Qed.

Lemma max_laws : SLaws max_sl.
Proof.
  constructor; simpl; unfold max_join; intros; auto.
  - destruct (N.ltb_spec a b); destruct (N.ltb_spec b c);
      repeat match goal with |- context [N.ltb ?x ?y] => destruct (N.ltb_spec x y) end; lia.
  - destruct (N.ltb_spec a b); destruct (N.ltb_spec b a); lia.
  - destruct (N.ltb_spec a a); lia.
Qed.

Lemma min_laws : SLaws min_sl.
Proof.
  constructor; simpl; unfold min_join; intros; auto.
  - destruct (N.ltb_spec b a); destruct (N.ltb_spec c b);
      repeat match goal with |- context [N.ltb ?x ?y] => destruct (N.ltb_spec x y) end; lia.
  - destruct (N.ltb_spec a b); destruct (N.ltb_spec b a); lia.
  - destruct (N.ltb_spec a a); lia.
Qed.

Lemma red_laws : SLaws red_sl.
Proof.
  constructor; simpl; intros; auto.
  - destruct a as [x|], b as [y|], c as [z|]; simpl; try reflexivity;
      repeat match goal with
             | |- context [N.eqb ?x ?y] => destruct (N.eqb_spec x y); subst; simpl
             end; try reflexivity; try congruence.
  - destruct a as [x|], b as [y|]; simpl; try reflexivity.
    destruct (N.eqb_spec x y); destruct (N.eqb_spec y x); subst; try reflexivity; congruence.
  - destruct a as [x|]; simpl; [rewrite N.eqb_refl|]; reflexivity.
Qed.

Lemma option_laws S : SLaws S -> SLaws (option_sl S).
Proof.
  intros L. constructor; simpl.
  - intros [a|] [b|]; simpl; auto. apply L.
  - intros [a|] [b|] [c|]; simpl; intros; try reflexivity. f_equal. apply L; assumption.
  - intros [a|] [b|]; simpl; intros; try reflexivity. f_equal. apply L; assumption.
  - intros [a|]; simpl; intros; try reflexivity. f_equal. apply L; assumption.
Qed.

(* ---------------- LWWReg ---------------- *)

Lemma lwwreg_laws S : SLaws S -> SLaws (lwwreg_sl S).
Proof.
  intros L. constructor; simpl.
  - intros [ca va] [cb vb]; unfold lwwreg_join, lwwreg_set; simpl; intros Ha Hb.
    destruct (N.eqb_spec cb ca); simpl; [apply L; assumption|].
    destruct (N.ltb_spec ca cb); simpl; assumption.
  - intros [ca va] [cb vb] [cc vc]; unfold lwwreg_join, lwwreg_set; simpl; intros Ha Hb Hc.
    destruct (N.eqb_spec cb ca); destruct (N.ltb_spec ca cb); simpl;
      destruct (N.eqb_spec cc cb); destruct (N.ltb_spec cb cc); simpl;
      repeat match goal with
             | |- context [N.eqb ?x ?y] => destruct (N.eqb_spec x y); simpl
             | |- context [N.ltb ?x ?y] => destruct (N.ltb_spec x y); simpl
             end; subst; try lia; try reflexivity.
    f_equal. apply L; assumption.
  - intros [ca va] [cb vb]; unfold lwwreg_join, lwwreg_set; simpl; intros Ha Hb.
    destruct (N.eqb_spec cb ca); destruct (N.eqb_spec ca cb); subst; try congruence.
    + f_equal. apply L; assumption.
    + destruct (N.ltb_spec ca cb); destruct (N.ltb_spec cb ca); try reflexivity; lia.
  - intros [ca va]; unfold lwwreg_join, lwwreg_set; simpl; intros Ha.
    rewrite N.eqb_refl. f_equal. apply L; assumption.
Qed.

(* ---------------- GMap ---------------- *)

Section GMap.
Variable S : SL.
Hypothesis L : SLaws S.

Let ins := fun (m : smap (car S)) (kv : N * car S) => gmap_insert S (fst kv) (snd kv) m.

Lemma gmap_fold_sorted l : forall a, sorted a -> sorted (fold_left ins l a).
Proof.
  induction l as [|[k v] l IH]; simpl; intros a H; [exact H|].
  apply IH. apply sorted_upsert. exact H.
Qed.

Lemma gmap_fold_lookup l : forall a k, sorted a -> sorted l ->
  lookup k (fold_left ins l a) = option_join S (lookup k a) (lookup k l).
Proof.
  induction l as [|[k1 v1] l IH]; simpl; intros a k Ha Hl.
  - destruct (lookup k a); reflexivity.
  - apply sorted_cons_inv in Hl. destruct Hl as [Hl Hall].
    rewrite IH by (try apply sorted_upsert; assumption).
    unfold ins, gmap_insert; simpl. rewrite lookup_upsert by assumption.
    destruct (N.eqb_spec k k1).
    + subst. rewrite (lookup_none_lt k1 l) by assumption.
      destruct (lookup k1 a); reflexivity.
    + reflexivity.
Qed.

Lemma Forall_wf_lookup (m : smap (car S)) k v :
  Forall (fun kv => wf S (snd kv)) m -> lookup k m = Some v -> wf S v.
Proof.
  intros H E. apply lookup_In in E. rewrite Forall_forall in H. apply (H (k, v)). exact E.
Qed.

Lemma lookup_option_wf (m : smap (car S)) k :
  Forall (fun kv => wf S (snd kv)) m -> option_wf S (lookup k m).
Proof.
  intros H. destruct (lookup k m) eqn:E; simpl; [|exact I].
  eapply Forall_wf_lookup; eassumption.
Qed.

Lemma upsert_Forall_wf k v (m : smap (car S)) :
  wf S v -> Forall (fun kv => wf S (snd kv)) m ->
  Forall (fun kv => wf S (snd kv)) (upsert (join S) k v m).
Proof.
  induction m as [|[k' v'] m IH]; simpl; intros Hv H.
  - constructor; [exact Hv | constructor].
  - inversion H; subst. destruct (N.compare k k').
    + constructor; [simpl; apply L; assumption | assumption].
    + constructor; [exact Hv | exact H].
    + constructor; [assumption | apply IH; assumption].
Qed.

Lemma gmap_fold_Forall l : forall a,
  Forall (fun kv => wf S (snd kv)) a -> Forall (fun kv => wf S (snd kv)) l ->
  Forall (fun kv => wf S (snd kv)) (fold_left ins l a).
Proof.
  induction l as [|[k v] l IH]; simpl; intros a Ha Hl; [exact Ha|].
  inversion Hl; subst. apply IH; [|assumption].
  apply upsert_Forall_wf; assumption.
Qed.

Lemma gmap_laws : SLaws (gmap_sl S).
Proof.
  pose proof (option_laws S L) as OL.
  constructor; simpl; unfold gmap_wf, gmap_join.
  - intros a b [Ha Fa] [Hb Fb]. split; [apply gmap_fold_sorted; exact Ha|].
    apply gmap_fold_Forall; assumption.
  - intros a b c [Ha Fa] [Hb Fb] [Hc Fc].
    apply smap_ext; [repeat apply gmap_fold_sorted; assumption ..|].
    intros k. rewrite !gmap_fold_lookup by (try apply gmap_fold_sorted; assumption).
    apply (join_assoc _ OL); apply lookup_option_wf; assumption.
  - intros a b [Ha Fa] [Hb Fb].
    apply smap_ext; [apply gmap_fold_sorted; assumption ..|].
    intros k. rewrite !gmap_fold_lookup by assumption.
    apply (join_comm _ OL); apply lookup_option_wf; assumption.
  - intros a [Ha Fa].
    apply smap_ext; [apply gmap_fold_sorted; assumption | assumption |].
    intros k. rewrite gmap_fold_lookup by assumption.
    apply (join_idem _ OL); apply lookup_option_wf; assumption.
Qed.

(* a map built by from_iter / successive inserts is well formed *)
Lemma gmap_of_list_wf l : Forall (fun kv => wf S (snd kv)) l -> wf (gmap_sl S) (gmap_of_list S l).
Proof.
  intros H. unfold gmap_of_list. simpl. unfold gmap_wf.
  assert (forall a, sorted a -> Forall (fun kv => wf S (snd kv)) a ->
                    sorted (fold_left ins l a) /\ Forall (fun kv => wf S (snd kv)) (fold_left ins l a)) as G.
  { induction l as [|[k v] l IH]; simpl; intros a Ha Fa; [split; assumption|].
    inversion H; subst. apply IH; [assumption | apply sorted_upsert; exact Ha |].
    apply upsert_Forall_wf; assumption. }
  apply G; [apply sorted_nil | constructor].
Qed.

End GMap.

Lemma gset_laws : SLaws gset_sl.
Proof. apply gmap_laws, unit_laws. Qed.

Lemma lwwmap_laws S : SLaws S -> SLaws (lwwmap_sl S).
Proof. intros L. apply gmap_laws, lwwreg_laws, option_laws, L. Qed.

Lemma lwwset_laws : SLaws lwwset_sl.
Proof. apply lwwmap_laws, unit_laws. Qed.

(* ---------------- last writer wins ---------------- *)

Section LWW.
Variable S : SL.

(* writes are (clock, value) pairs *)
Definition reg_build (w0 : N * car S) (ws : list (N * car S)) : N * car S :=
  fold_left (fun r w => lwwreg_set S r (snd w) (fst w)) ws w0.

Definition top_clock (w0 : N * car S) (ws : list (N * car S)) : N :=
  fold_left N.max (map fst ws) (fst w0).

(* values written with the greatest clock, in write order *)
Definition winners (w0 : N * car S) (ws : list (N * car S)) : list (car S) :=
  map snd (filter (fun w => N.eqb (fst w) (top_clock w0 ws)) (w0 :: ws)).

Lemma top_clock_snoc w0 ws w : top_clock w0 (ws ++ [w]) = N.max (top_clock w0 ws) (fst w).
Proof. unfold top_clock. rewrite map_app, fold_left_app. reflexivity. Qed.

Lemma top_clock_ge w0 ws : forall w, In w (w0 :: ws) -> (fst w <= top_clock w0 ws)%N.
Proof.
  intros w [<-|H]; unfold top_clock.
  - apply fold_left_max_ge.
  - apply fold_left_max_in. apply in_map. exact H.
Qed.

Lemma filter_none_above (l : list (N * car S)) c :
  (forall w, In w l -> (fst w < c)%N) -> filter (fun w => N.eqb (fst w) c) l = [].
Proof.
  induction l as [|w l IH]; simpl; intros H; [reflexivity|].
  destruct (N.eqb_spec (fst w) c).
  - specialize (H w (or_introl eq_refl)). lia.
  - apply IH. intros; apply H; right; assumption.
Qed.

Theorem lwwreg_greatest_clock w0 ws :
  exists v0 vs, winners w0 ws = v0 :: vs /\
    reg_build w0 ws = (top_clock w0 ws, fold_left (join S) vs v0).
Proof.
  induction ws as [|w ws IH] using rev_ind.
  - exists (snd w0), []. unfold winners, top_clock, reg_build; simpl.
    rewrite N.eqb_refl. split; [reflexivity | destruct w0; reflexivity].
  - destruct IH as (v0 & vs & Hw & Hb).
    unfold reg_build in *. rewrite fold_left_app; simpl. rewrite Hb.
    unfold lwwreg_set; simpl. rewrite top_clock_snoc.
    unfold winners in *. rewrite top_clock_snoc.
    change (w0 :: ws ++ [w]) with ((w0 :: ws) ++ [w]). rewrite filter_app, map_app.
    remember (w0 :: ws) as base eqn:Hbase. cbn [filter map fst snd].
    destruct (N.eqb_spec (fst w) (top_clock w0 ws)) as [E|NE].
    + (* equal clock: value merged *)
      rewrite E, N.max_id, Hw, N.eqb_refl. simpl.
      exists v0, (vs ++ [snd w]). split; [reflexivity|].
      rewrite fold_left_app. reflexivity.
    + destruct (N.ltb_spec (top_clock w0 ws) (fst w)) as [Hlt|Hge].
      * (* strictly newer: replaces *)
        replace (N.max (top_clock w0 ws) (fst w)) with (fst w) by lia.
        rewrite N.eqb_refl. simpl.
        rewrite filter_none_above.
        2:{ intros w' Hin. rewrite Hbase in Hin. pose proof (top_clock_ge w0 ws w' Hin). lia. }
        simpl. exists (snd w), []. split; reflexivity.
      * (* older: ignored *)
        replace (N.max (top_clock w0 ws) (fst w)) with (top_clock w0 ws) by lia.
        rewrite Hw. destruct (N.eqb_spec (fst w) (top_clock w0 ws)); [contradiction|].
        simpl. rewrite app_nil_r. exists v0, vs. split; reflexivity.
Qed.

(* LWWMap: the register stored under a key is the register built from the
   writes to that key, in order. *)
Definition kwrite := (N * (N * option (car S)))%type.        (* key, (clock, Some v | None) *)
Definition map_build (ops : list kwrite) : smap (N * option (car S)) :=
  fold_left (fun m o => gmap_insert (lwwreg_sl (option_sl S)) (fst o) (snd o) m) ops [].
Definition writes_on (k : N) (ops : list kwrite) : list (N * option (car S)) :=
  map snd (filter (fun o => N.eqb (fst o) k) ops).

Lemma map_build_sorted ops : sorted (map_build ops).
Proof.
  unfold map_build.
  assert (forall m, sorted m -> sorted (fold_left
    (fun m o => gmap_insert (lwwreg_sl (option_sl S)) (fst o) (snd o) m) ops m)) as G.
  { induction ops as [|o ops IH]; simpl; intros m H; [exact H|].
    apply IH. apply sorted_upsert. exact H. }
  apply G, sorted_nil.
Qed.

Lemma map_build_snoc ops o :
  map_build (ops ++ [o]) = gmap_insert (lwwreg_sl (option_sl S)) (fst o) (snd o) (map_build ops).
Proof. unfold map_build. rewrite fold_left_app. reflexivity. Qed.

Lemma lookup_map_build k ops :
  lookup k (map_build ops) =
  match writes_on k ops with
  | [] => None
  | w0 :: ws => Some (fold_left (fun r w => lwwreg_set (option_sl S) r (snd w) (fst w)) ws w0)
  end.
Proof.
  induction ops as [|o ops IH] using rev_ind; [reflexivity|].
  rewrite map_build_snoc. unfold gmap_insert. rewrite lookup_upsert by apply map_build_sorted.
  unfold writes_on, kwrite in *. rewrite filter_app, map_app. simpl.
  destruct (N.eqb_spec k (fst o)) as [E|NE].
  - subst k. rewrite N.eqb_refl. simpl. rewrite IH.
    match goal with |- context [map snd (filter ?f ops)] =>
      destruct (map snd (filter f ops)) as [|w0 ws] end; simpl.
    + reflexivity.
    + rewrite fold_left_app. simpl. destruct o as [ko [co vo]]. reflexivity.
  - destruct (N.eqb_spec (fst o) k); [congruence|]. simpl. rewrite app_nil_r. exact IH.
Qed.

End LWW.

(* reads of LWWMap / LWWSet *)
Theorem lwwmap_get_greatest_clock S k (ops : list (kwrite S)) :
  match writes_on S k ops with
  | [] => lwwmap_get S k (map_build S ops) = None
  | w0 :: ws => exists v0 vs, winners (option_sl S) w0 ws = v0 :: vs /\
        lwwmap_get S k (map_build S ops) = fold_left (option_join S) vs v0
  end.
Proof.
  pose proof (lookup_map_build S k ops) as HL.
  unfold lwwmap_get.
  destruct (writes_on S k ops) as [|w0 ws].
  - cbn [car lwwreg_sl option_sl] in *. rewrite HL. reflexivity.
  - destruct (lwwreg_greatest_clock (option_sl S) w0 ws) as (v0 & vs & Hw & Hb).
    exists v0, vs. split; [exact Hw|].
    unfold reg_build in Hb. cbn [car lwwreg_sl option_sl] in *. rewrite HL, Hb. reflexivity.
Qed.

(* joining options of unit: Some as soon as one Some occurs *)
Lemma fold_option_join_unit (vs : list (option unit)) v0 :
  fold_left (option_join unit_sl) vs v0 =
  if existsb (fun v => match v with Some _ => true | None => false end) (v0 :: vs)
  then Some tt else None.
Proof.
  revert v0. induction vs as [|v vs IH]; intros v0; simpl.
  - destruct v0 as [[]|]; reflexivity.
  - rewrite IH. simpl. destruct v0 as [[]|], v as [[]|]; simpl; reflexivity.
Qed.

(* add-wins: an element is in the set iff one of the writes carrying the
   greatest clock for that element is an insertion *)
Theorem lwwset_add_wins k (ops : list (kwrite unit_sl)) :
  lwwset_contains k (map_build unit_sl ops) =
  match writes_on unit_sl k ops with
  | [] => false
  | w0 :: ws => existsb (fun v => match v with Some _ => true | None => false end)
                  (winners (option_sl unit_sl) w0 ws)
  end.
Proof.
  unfold lwwset_contains.
  pose proof (lwwmap_get_greatest_clock unit_sl k ops) as H.
  destruct (writes_on unit_sl k ops) as [|w0 ws].
  - rewrite H. reflexivity.
  - destruct H as (v0 & vs & Hw & Hg). rewrite Hg, Hw, fold_option_join_unit.
    cbn [car option_sl unit_sl] in *.
    match goal with |- context [existsb ?f (v0 :: vs)] => destruct (existsb f (v0 :: vs)) end;
      reflexivity.
Qed.

(* tie between the model's op lists and the generic builder *)
Definition mop_write (o : mop) : kwrite max_sl :=
  match o with MIns k v c => (k, (c, Some v)) | MRem k c => (k, (c, None)) end.
Definition sop_write (o : sop) : kwrite unit_sl :=
  match o with SIns k c => (k, (c, Some tt)) | SRem k c => (k, (c, None)) end.

Lemma lwwmap_build_generic ops : lwwmap_build ops = map_build max_sl (map mop_write ops).
Proof.
  unfold lwwmap_build, map_build.
  assert (forall m, fold_left lwwmap_apply ops m =
     fold_left (fun m o => gmap_insert (lwwreg_sl (option_sl max_sl)) (fst o) (snd o) m)
       (map mop_write ops) m) as G.
  { induction ops as [|o ops IH]; simpl; intros m; [reflexivity|].
    rewrite IH. destruct o; reflexivity. }
  apply G.
Qed.

Lemma lwwset_build_generic ops : lwwset_build ops = map_build unit_sl (map sop_write ops).
Proof.
  unfold lwwset_build, map_build.
  assert (forall m, fold_left lwwset_apply ops m =
     fold_left (fun m o => gmap_insert (lwwreg_sl (option_sl unit_sl)) (fst o) (snd o) m)
       (map sop_write ops) m) as G.
  { induction ops as [|o ops IH]; simpl; intros m; [reflexivity|].
    rewrite IH. destruct o; reflexivity. }
  apply G.
Qed.

Lemma map_build_wf S (L : SLaws S) ops :
  Forall (fun o : kwrite S => option_wf S (snd (snd o))) ops ->
  wf (lwwmap_sl S) (map_build S ops).
Proof.
  intros H. simpl. unfold gmap_wf. split; [apply map_build_sorted|].
  induction ops as [|o ops IH] using rev_ind; [constructor|].
  rewrite map_build_snoc. apply Forall_app in H. destruct H as [H1 H2].
  inversion H2; subst.
  apply (upsert_Forall_wf (lwwreg_sl (option_sl S)) (lwwreg_laws _ (option_laws S L))).
  - simpl. assumption.
  - apply IH; assumption.
Qed.
