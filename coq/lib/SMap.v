(* SMap.v — finite maps / sets over N keys as strictly sorted association
   lists.  Mirrors Rust's BTreeMap/BTreeSet: iteration order is key order and
   two maps with the same bindings are *equal as lists*, so model outputs can be
   compared with `=`.  Stdlib only. *)
From HW Require Import lib.Base.
From Coq Require Import Sorted.

Section SMap.
Context {V : Type}.

Definition smap := list (N * V).

Fixpoint lookup (k : N) (m : smap) : option V :=
  match m with
  | [] => None
  | (k', v) :: m' => if N.eqb k k' then Some v else lookup k m'
  end.

(* insert, combining with an existing binding: f old new *)
Fixpoint upsert (f : V -> V -> V) (k : N) (v : V) (m : smap) : smap :=
  match m with
  | [] => [(k, v)]
  | (k', v') :: m' =>
      match N.compare k k' with
      | Lt => (k, v) :: m
      | Eq => (k, f v' v) :: m'
      | Gt => (k', v') :: upsert f k v m'
      end
  end.

Definition insert (k : N) (v : V) (m : smap) : smap := upsert (fun _ n => n) k v m.

Fixpoint remove (k : N) (m : smap) : smap :=
  match m with
  | [] => []
  | (k', v') :: m' => if N.eqb k k' then m' else (k', v') :: remove k m'
  end.

Definition keys (m : smap) : list N := map fst m.
Definition mem (k : N) (m : smap) : bool :=
  match lookup k m with Some _ => true | None => false end.

Definition sorted (m : smap) : Prop := StronglySorted N.lt (keys m).

Lemma sorted_nil : sorted [].
Proof. constructor. Qed.

Lemma sorted_cons_inv k v m : sorted ((k, v) :: m) ->
  sorted m /\ Forall (fun k' => (k < k')%N) (keys m).
Proof. intros H. inversion H; subst. split; assumption. Qed.

Lemma sorted_cons k v m : sorted m -> Forall (fun k' => (k < k')%N) (keys m) ->
  sorted ((k, v) :: m).
Proof. intros H1 H2. constructor; assumption. Qed.

Lemma lookup_none_lt k m :
  Forall (fun k' => (k < k')%N) (keys m) -> lookup k m = None.
Proof.
  induction m as [|[k' v'] m IH]; simpl; intros H; [reflexivity|].
  inversion H; subst.
  destruct (N.eqb_spec k k'); [lia|]. apply IH; assumption.
Qed.

Lemma lookup_none_le k k0 m :
  (k <= k0)%N -> Forall (fun k' => (k0 < k')%N) (keys m) -> lookup k m = None.
Proof.
  intros Hle H. apply lookup_none_lt.
  eapply Forall_impl; [|exact H]. simpl. intros; lia.
Qed.

Lemma lookup_In k v m : lookup k m = Some v -> In (k, v) m.
Proof.
  induction m as [|[k' v'] m IH]; simpl; [discriminate|].
  destruct (N.eqb_spec k k').
  - intros E; inversion E; subst. left; reflexivity.
  - intros E. right. apply IH; exact E.
Qed.

Lemma lookup_in_keys k m : lookup k m <> None <-> In k (keys m).
Proof.
  induction m as [|[k' v'] m IH]; simpl.
  - split; [congruence | tauto].
  - destruct (N.eqb_spec k k').
    + subst. split; [intros _; left; reflexivity | congruence].
    + rewrite IH. split; [intros H; right; exact H | intros [E|H]; [congruence | exact H]].
Qed.

Lemma In_lookup k v m : sorted m -> In (k, v) m -> lookup k m = Some v.
Proof.
  induction m as [|[k' v'] m IH]; simpl; intros Hs H; [tauto|].
  apply sorted_cons_inv in Hs. destruct Hs as [Hs Hall].
  destruct H as [E|H].
  - inversion E; subst. rewrite N.eqb_refl. reflexivity.
  - destruct (N.eqb_spec k k').
    + subst. exfalso. rewrite Forall_forall in Hall.
      assert (In k' (keys m)) by (apply in_map_iff; exists (k', v); auto).
      specialize (Hall _ H0). lia.
    + apply IH; assumption.
Qed.

Lemma upsert_keys_forall f k v m (P : N -> Prop) :
  P k -> Forall P (keys m) -> Forall P (keys (upsert f k v m)).
Proof.
  induction m as [|[k' v'] m IH]; simpl; intros Hk H.
  - constructor; [exact Hk | constructor].
  - inversion H; subst.
    destruct (N.compare_spec k k').
    + subst. constructor; assumption.
    + constructor; [exact Hk | exact H].
    + simpl. constructor; [assumption | apply IH; assumption].
Qed.

Lemma sorted_upsert f k v m : sorted m -> sorted (upsert f k v m).
Proof.
  induction m as [|[k' v'] m IH]; simpl; intros Hs.
  - apply sorted_cons; [apply sorted_nil | constructor].
  - pose proof Hs as Hs0. apply sorted_cons_inv in Hs. destruct Hs as [Hs Hall].
    destruct (N.compare_spec k k').
    + subst. apply sorted_cons; assumption.
    + apply sorted_cons; [exact Hs0|].
      simpl. constructor; [exact H|].
      eapply Forall_impl; [|exact Hall]. simpl; intros; lia.
    + apply sorted_cons; [apply IH; exact Hs|].
      apply upsert_keys_forall; assumption.
Qed.

Lemma lookup_upsert f k v m k0 : sorted m ->
  lookup k0 (upsert f k v m) =
  if N.eqb k0 k then Some (match lookup k m with Some o => f o v | None => v end)
  else lookup k0 m.
Proof.
  induction m as [|[k' v'] m IH]; simpl; intros Hs.
  - destruct (N.eqb_spec k0 k); reflexivity.
  - apply sorted_cons_inv in Hs. destruct Hs as [Hs Hall].
    destruct (N.compare_spec k k').
    + subst k'. simpl. rewrite N.eqb_refl.
      destruct (N.eqb_spec k0 k); reflexivity.
    + simpl. destruct (N.eqb_spec k k'); [lia|].
      rewrite (lookup_none_le k k' m) by (try lia; assumption).
      destruct (N.eqb_spec k0 k); reflexivity.
    + simpl. destruct (N.eqb_spec k k'); [lia|].
      rewrite IH by assumption.
      destruct (N.eqb_spec k0 k); destruct (N.eqb_spec k0 k'); try reflexivity; lia.
Qed.

Lemma sorted_remove k m : sorted m -> sorted (remove k m).
Proof.
  induction m as [|[k' v'] m IH]; simpl; intros Hs; [exact Hs|].
  apply sorted_cons_inv in Hs. destruct Hs as [Hs Hall].
  destruct (N.eqb k k'); [exact Hs|].
  apply sorted_cons; [apply IH; exact Hs|].
  clear IH Hs. induction m as [|[k2 v2] m IH]; simpl; [constructor|].
  inversion Hall; subst.
  destruct (N.eqb k k2); [assumption|]. simpl. constructor; [assumption | apply IH; assumption].
Qed.

Lemma lookup_remove k m k0 : sorted m ->
  lookup k0 (remove k m) = if N.eqb k0 k then None else lookup k0 m.
Proof.
  induction m as [|[k' v'] m IH]; simpl; intros Hs.
  - destruct (N.eqb k0 k); reflexivity.
  - apply sorted_cons_inv in Hs. destruct Hs as [Hs Hall].
    destruct (N.eqb_spec k k').
    + subst k'. destruct (N.eqb_spec k0 k); [|reflexivity].
      subst. apply lookup_none_lt; assumption.
    + simpl. rewrite IH by assumption.
      destruct (N.eqb_spec k0 k'); destruct (N.eqb_spec k0 k); try reflexivity; lia.
Qed.

(* extensionality: sorted lists with the same bindings are equal *)
Lemma smap_ext (a b : smap) : sorted a -> sorted b ->
  (forall k, lookup k a = lookup k b) -> a = b.
Proof.
  revert b. induction a as [|[k1 v1] a IH]; intros [|[k2 v2] b] Ha Hb H.
  - reflexivity.
  - specialize (H k2). simpl in H. rewrite N.eqb_refl in H. discriminate.
  - specialize (H k1). simpl in H. rewrite N.eqb_refl in H. discriminate.
  - apply sorted_cons_inv in Ha. destruct Ha as [Ha Halla].
    apply sorted_cons_inv in Hb. destruct Hb as [Hb Hallb].
    assert (k1 = k2) as ->.
    { destruct (N.lt_trichotomy k1 k2) as [Hlt|[E|Hgt]]; [|exact E|].
      - pose proof (H k1) as H1. simpl in H1. rewrite N.eqb_refl in H1.
        destruct (N.eqb_spec k1 k2); [lia|].
        rewrite (lookup_none_le k1 k2 b) in H1 by (try lia; assumption). discriminate.
      - pose proof (H k2) as H2. simpl in H2. rewrite N.eqb_refl in H2.
        destruct (N.eqb_spec k2 k1); [lia|].
        rewrite (lookup_none_le k2 k1 a) in H2 by (try lia; assumption). discriminate. }
    pose proof (H k2) as H2. simpl in H2. rewrite N.eqb_refl in H2. inversion H2; subst v2.
    f_equal. apply IH; try assumption.
    intros k. specialize (H k). simpl in H.
    destruct (N.eqb_spec k k2); [|exact H].
    subst. rewrite (lookup_none_lt k2 a), (lookup_none_lt k2 b) by assumption. reflexivity.
Qed.

End SMap.

Arguments smap : clear implicits.

(* sets of N are maps to unit *)
Definition sset := smap unit.
Definition sset_add (k : N) (s : sset) : sset := insert k tt s.
Definition sset_mem (k : N) (s : sset) : bool := mem k s.
Definition sset_elems (s : sset) : list N := keys s.
Definition sset_of_list (l : list N) : sset := fold_left (fun s k => sset_add k s) l [].

Lemma sorted_fold_upsert {V} (f : V -> V -> V) (l : list (N * V)) : forall m,
  sorted m -> sorted (fold_left (fun m kv => upsert f (fst kv) (snd kv) m) l m).
Proof.
  induction l as [|[k v] l IH]; simpl; intros m H; [exact H|].
  apply IH. apply sorted_upsert. exact H.
Qed.
