(* Base.v — shared definitions for every model: boolean equalities used by the
   correspondence cases, small list utilities.  Stdlib only. *)
From Coq Require Export List NArith ZArith Bool Lia.
Export ListNotations.

Arguments N.add : simpl never.
Arguments N.sub : simpl never.
Arguments N.mul : simpl never.
Arguments N.eqb : simpl never.
Arguments N.ltb : simpl never.
Arguments N.leb : simpl never.
Arguments N.compare : simpl never.

(* ---------- boolean equalities (for comparing model output with the
   implementation's observation inside cases files) ---------- *)

Definition option_eqb {A} (eqb : A -> A -> bool) (a b : option A) : bool :=
  match a, b with
  | Some x, Some y => eqb x y
  | None, None => true
  | _, _ => false
  end.

Definition prod_eqb {A B} (ea : A -> A -> bool) (eb : B -> B -> bool)
  (a b : A * B) : bool :=
  ea (fst a) (fst b) && eb (snd a) (snd b).

Fixpoint list_eqb {A} (eqb : A -> A -> bool) (a b : list A) : bool :=
  match a, b with
  | [], [] => true
  | x :: a', y :: b' => eqb x y && list_eqb eqb a' b'
  | _, _ => false
  end.

Definition unit_eqb (_ _ : unit) : bool := true.

Lemma option_eqb_spec {A} (eqb : A -> A -> bool) :
  (forall x y, eqb x y = true <-> x = y) ->
  forall a b, option_eqb eqb a b = true <-> a = b.
Proof.
  intros H [x|] [y|]; simpl; try (split; congruence).
  rewrite H. split; congruence.
Qed.

Lemma list_eqb_spec {A} (eqb : A -> A -> bool) :
  (forall x y, eqb x y = true <-> x = y) ->
  forall a b, list_eqb eqb a b = true <-> a = b.
Proof.
  intros H a. induction a as [|x a IH]; intros [|y b]; simpl; try (split; congruence).
  rewrite andb_true_iff, H, IH. split; [intros [-> ->]; reflexivity | intros E; inversion E; auto].
Qed.

Lemma prod_eqb_spec {A B} (ea : A -> A -> bool) (eb : B -> B -> bool) :
  (forall x y, ea x y = true <-> x = y) ->
  (forall x y, eb x y = true <-> x = y) ->
  forall a b, prod_eqb ea eb a b = true <-> a = b.
Proof.
  intros HA HB [a1 b1] [a2 b2]. unfold prod_eqb; simpl.
  rewrite andb_true_iff, HA, HB. split; [intros [-> ->]; reflexivity | intros E; inversion E; auto].
Qed.

(* indices (as N) of the cases whose check is false *)
Fixpoint failing_from {A} (i : N) (f : A -> bool) (l : list A) : list N :=
  match l with
  | [] => []
  | x :: l' => if f x then failing_from (N.succ i) f l' else i :: failing_from (N.succ i) f l'
  end.
Definition failing {A} (f : A -> bool) (l : list A) : list N := failing_from 0%N f l.

(* ---------- misc list helpers ---------- *)

Fixpoint nth_opt {A} (n : nat) (l : list A) : option A :=
  match l, n with
  | [], _ => None
  | x :: _, O => Some x
  | _ :: l', S n' => nth_opt n' l'
  end.

Definition memN (x : N) (l : list N) : bool := existsb (N.eqb x) l.

Lemma memN_In x l : memN x l = true <-> In x l.
Proof.
  unfold memN. rewrite existsb_exists. split.
  - intros [y [Hy E]]. apply N.eqb_eq in E. subst. exact Hy.
  - intros H. exists x. split; [exact H | apply N.eqb_refl].
Qed.

Fixpoint dedupN (l : list N) : list N :=
  match l with
  | [] => []
  | x :: l' => if memN x l' then dedupN l' else x :: dedupN l'
  end.

Definition maxN_list (l : list N) : N := fold_left N.max l 0%N.

Lemma fold_left_max_ge l : forall a, (a <= fold_left N.max l a)%N.
Proof. induction l as [|x l IH]; simpl; intros a; [lia|]. specialize (IH (N.max a x)). lia. Qed.

Lemma fold_left_max_in l : forall a x, In x l -> (x <= fold_left N.max l a)%N.
Proof.
  induction l as [|y l IH]; simpl; intros a x H; [tauto|].
  destruct H as [->|H].
  - pose proof (fold_left_max_ge l (N.max a x)). lia.
  - apply IH; exact H.
Qed.
