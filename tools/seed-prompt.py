#!/usr/bin/env python3
"""tools/seed-prompt.py Cxx [Cyy ...]: create /tmp/seed-Cxx worktree + /tmp/seed-Cxx-out/PROMPT.txt
for a fresh agent that is given only the property text (nothing from /verif)."""
import json, os, subprocess, sys
props = {json.loads(l)['id']: json.loads(l) for l in open('/verif/properties.jsonl')}
for pid in sys.argv[1:]:
    p = props[pid]
    wt, out = f"/tmp/seed-{pid}", f"/tmp/seed-{pid}-out"
    if not os.path.isdir(wt):
        subprocess.run(["git", "-C", "/repo", "worktree", "add", "--detach", wt, "HEAD"], check=True, capture_output=True)
    os.makedirs(out, exist_ok=True)
    open(f"{out}/PROMPT.txt", "w").write(f"""You are helping test how well a verification effort detects regressions. You work ONLY inside your own scratch git worktree of the Rust project radicle heartwood at {wt} (a detached checkout; build with `cargo ... --offline`; there is no network; never touch /repo or /verif, never read anything under /verif). Write your deliverables to {out}/.

Here is a semantic property of the project that is supposed to hold:

  Title: {p['title']}
  Statement: {p['statement']}
  Quantifier: {p['quantifier']['text']}
  Anchored in: {', '.join(p['anchors']['files'])}

Your job: produce ONE realistic change to the project's source (the kind of slip a maintainer could make in a refactor, optimisation or feature addition — not sabotage that ordinary use exposes at once) that BREAKS this property while the project still compiles and its existing tests still pass. Prefer a change that needs something specific to manifest: a particular interleaving or ordering, a crash or fault at a particular point, a multi-step sequence of operations, an unusual/boundary input, equal timestamps, or two cooperating sites that each look fine alone. Do not edit, delete or weaken any existing test. Keep the change small (a few lines, at most two sites).

Deliver in {out}/:
  1. patch.diff — `git diff` of your change against the worktree's HEAD (source change only; not the demonstration).
  2. demo.diff — a separate patch adding a demonstration that FAILS with your change and PASSES without it: a new Rust test file / `#[test]` function (or a small program) that exercises the real code, is deterministic and finishes in under a minute; plus run.sh containing the exact command (run from anywhere; use the worktree path {wt}), which exits non-zero when the property is violated. demo.diff must apply with and without patch.diff.
  3. notes.md — which clause of the property breaks, what exactly is needed for the violation to manifest (the specific input / sequence / interleaving), why the existing tests do not notice, the exact cargo command(s) that run the existing tests you checked, and what you ran.

Verify all of this yourself before finishing: (a) with patch.diff applied the touched crates compile and their existing tests pass (`cargo test -p <crate> --offline` for every crate you touched and the crates whose tests exercise that code; run them; some crates need `--features` to compile their tests on their own — note the exact command), (b) demo fails with the patch and passes without it (apply/revert and run both ways), (c) leave the worktree with BOTH patches reverted (`git -C {wt} checkout -- . && git -C {wt} clean -fd -e target`) when you finish. Building takes a few minutes the first time; the machine is shared and may be slow; be patient with cargo file locks.

Final message: the clause broken, the trigger, the exact commands you ran and their outcomes (pass/fail both ways).""")
    print(pid, "ok")
