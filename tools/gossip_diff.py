#!/usr/bin/env python3
"""Debug helper: show the first step at which model and implementation differ
for the mismatching gossip cases of a harness run directory."""
import json, sys, subprocess, re, os
d = sys.argv[1]; which = sys.argv[2:] 
r = json.load(open(os.path.join(d, 'report.json')))
ct = {c[0]: c for c in r['case_terms']}
for cid in which:
    c = ct[cid]
    src = """From HW Require Import lib.Base model.Gossip.
Local Open Scope N_scope.
Definition c := %s.
Definition e := %s.
Fixpoint firstdiff (i : N) (a b : list step_obs) : option (N * option step_obs * option step_obs) :=
  match a, b with
  | [], [] => None
  | x :: a', y :: b' => if step_obs_eqb x y then firstdiff (N.succ i) a' b' else Some (i, Some x, Some y)
  | x :: _, [] => Some (i, Some x, None)
  | [], y :: _ => Some (i, None, Some y)
  end.
Eval vm_compute in (match g_run c, e with
  | GRun s t, GRun s' t' => (firstdiff 0 s s', if list_eqb w5_eqb t t' then ([],[]) else (t, t'))
  | _, _ => (None, ([],[])) end).
""" % (c[1], c[2])
    open('/tmp/gd.v', 'w').write(src)
    out = subprocess.run("coqc -Q /verif/coq HW /tmp/gd.v", shell=True, capture_output=True, text=True).stdout
    print("== case", cid); print(out)
    m = re.search(r"Some\s*\(\s*(\d+)", out)
    evs = re.findall(r"\((E[A-Za-z]+ (?:[^()]|\([^()]*\))*)\)", c[1])
    if m:
        i = int(m.group(1))
        for j, e in enumerate(evs[: i + 1]):
            print(j, e)
